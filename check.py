#!/usr/bin/env python3
"""Driver of the BaseGraph property checks.

  check.py <ID> --tier quick|thorough      run the registered check of property ID
  check.py <ID> --replay <file>            re-run one saved case (exit 1 + VIOLATION if it still fails)
  check.py --build-all                     warm the object cache for the current tree (setup)

Environment: VERIF_SEED (int, default 1), VERIF_TIER, VERIF_REPO (default /repo),
VERIF_JOBS (parallel processes, default = cpu count).

Exit status: 0 held on everything explored (known findings are printed as
KNOWN-FINDING lines), 1 violation (a line `VIOLATION property=<id> replay=<path>`
is printed), 2 the check itself is broken / inconclusive (never a VIOLATION).
"""
import sys

from lib import runner

if __name__ == "__main__":
    sys.exit(runner.main(sys.argv[1:]))

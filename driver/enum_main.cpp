// Bounded-exhaustive enumerator front-end.  Emits case texts in a fixed order,
// runs the executor on the cases of its shard, writes the same statistics as
// the rapidcheck front-end.
//
// usage: enum --enum graphs|w4 --cfg k=v,... --shard K/N --out stats.json [--marker FILE]
#include "abi.h"
#include "gens_cfg.hpp"
#include "stats.hpp"

#include <cstdio>
#include <cstring>
#include <algorithm>
#include <functional>
#include <vector>

using namespace verif;

namespace {

std::string hexMask(unsigned long long m) {
    char b[32];
    std::snprintf(b, sizeof b, "%llx", m);
    return b;
}

size_t pairCount(size_t n, bool directed) { return directed ? n * n : n * (n + 1) / 2; }

// calls f(case text) for every case of the enumeration; returns number of cases
unsigned long long enumerate(const std::string &name, const Cfg &cfg, const std::function<void(const std::string &)> &f) {
    unsigned long long count = 0;
    std::string prop = cfgGet(cfg, "prop", "C08");
    auto classes = splitList(cfgGet(cfg, "classes", "DS:none"), ';');
    int orders = (int)cfgInt(cfg, "orders", 1);
    auto pads = splitList(cfgGet(cfg, "pads", "0:0"), ';');
    long long writersN = cfgInt(cfg, "writers_n", -1);
    std::string extra = cfgGet(cfg, "extra", ""); // "key value;key value" copied into every case
    for (auto &cl : classes) {
        auto parts = splitList(cl, ':');
        bool directed = parts[0][0] == 'D';
        long long nmin = cfgInt(cfg, directed ? "dmin" : "umin", 0), nmax = cfgInt(cfg, directed ? "dmax" : "umax", 3);
        for (long long n = nmin; n <= nmax; ++n) {
            size_t P = pairCount((size_t)n, directed);
            std::string head = "prop " + prop + "\nclass " + parts[0] + "\nlabel " + (parts.size() > 1 ? parts[1] : "none") + "\nn " + std::to_string(n) + "\n";
            for (auto &kv : splitList(extra, ';'))
                head += kv + "\n";
            if (writersN >= 0 && n <= writersN)
                head += "writers 1\n";
            if (name == "graphs") {
                if (P > 40)
                    continue;
                for (unsigned long long mask = 0; mask < (1ULL << P); ++mask) {
                    int edges = __builtin_popcountll(mask);
                    int no = edges < 2 ? 1 : orders;
                    for (int o = 0; o < no; ++o)
                        for (auto &pad : pads) {
                            auto pp = splitList(pad, ':');
                            std::string t = head + "mask " + hexMask(mask) + "\norder " + std::to_string(o) + "\n";
                            if (pp.size() == 2 && (pp[0] != "0" || pp[1] != "0"))
                                t += "pad_front " + pp[0] + "\npad_back " + pp[1] + "\n";
                            f(t);
                            ++count;
                        }
                }
            } else if (name == "histmask") {
                // every edge set built by unforced adds in a stated order, then every single mutator applied once
                if (P > 16)
                    continue;
                std::vector<std::pair<unsigned, unsigned>> pairs;
                for (unsigned i = 0; i < (unsigned)n; ++i)
                    for (unsigned j = directed ? 0 : i; j < (unsigned)n; ++j)
                        pairs.emplace_back(i, j);
                std::string head2 = "prop " + prop + "\nclass " + parts[0] + "\nlabel " + (parts.size() > 1 ? parts[1] : "none") + "\nn0 " + std::to_string(n) + "\n";
                for (auto &kv : splitList(extra, ';'))
                    head2 += kv + "\n";
                for (unsigned long long mask = 0; mask < (1ULL << P); ++mask) {
                    int edges = __builtin_popcountll(mask);
                    int no = edges < 2 ? 1 : orders;
                    for (int o = 0; o < no; ++o) {
                        std::vector<std::string> adds;
                        for (size_t b = 0; b < P; ++b)
                            if ((mask >> b) & 1) {
                                unsigned i = pairs[b].first, j = pairs[b].second;
                                if (!directed && ((b + o) % 3 == 1))
                                    std::swap(i, j);
                                adds.push_back("op add " + std::to_string(i) + " " + std::to_string(j) + " 0 " + std::to_string((3 * b + 1) % 12) + " 0\n");
                            }
                        if (o == 1)
                            std::reverse(adds.begin(), adds.end());
                        else if (o >= 2)
                            std::rotate(adds.begin(), adds.begin() + adds.size() / 2, adds.end());
                        std::string base = head2;
                        for (auto &a : adds)
                            base += a;
                        std::vector<std::string> muts = {"op rmloops\n", "op clear\n", "op resize 2\n"};
                        for (auto &pr : pairs) {
                            std::string ij = std::to_string(pr.first) + " " + std::to_string(pr.second);
                            std::string ji = std::to_string(pr.second) + " " + std::to_string(pr.first);
                            muts.push_back("op rm " + (directed ? ij : ji) + " 0\n");
                            muts.push_back("op add " + ij + " 0 7 0\n");
                            muts.push_back("op setl " + ji + " 0 5 0\n");
                        }
                        for (long long v = 0; v < n; ++v)
                            muts.push_back("op rmvtx " + std::to_string(v) + " 0\n");
                        for (auto &m : muts) {
                            f(base + m);
                            ++count;
                        }
                    }
                }
            } else if (name == "w4") {
                if (P > 20)
                    continue;
                unsigned long long total = 1;
                for (size_t i = 0; i < P; ++i)
                    total *= 4;
                std::string digits(P, '0');
                for (unsigned long long v = 0; v < total; ++v) {
                    unsigned long long x = v;
                    int edges = 0;
                    for (size_t i = 0; i < P; ++i) {
                        digits[i] = char('0' + (x & 3));
                        edges += (x & 3) != 0;
                        x >>= 2;
                    }
                    int no = edges < 2 ? 1 : orders;
                    for (int o = 0; o < no; ++o) {
                        f(head + "w4 " + (P ? digits : std::string("0")) + "\norder " + std::to_string(o) + "\n");
                        ++count;
                    }
                }
            }
        }
    }
    return count;
}

} // namespace

int main(int argc, char **argv) {
    std::string name, cfgText, outPath, markerPath, shard = "0/1";
    for (int i = 1; i < argc; ++i) {
        std::string a = argv[i];
        auto next = [&]() -> std::string { return i + 1 < argc ? argv[++i] : ""; };
        if (a == "--enum") name = next();
        else if (a == "--cfg") cfgText = next();
        else if (a == "--out") outPath = next();
        else if (a == "--marker") markerPath = next();
        else if (a == "--shard") shard = next();
    }
    if (name.empty() || outPath.empty()) {
        std::fprintf(stderr, "usage: %s --enum NAME --cfg k=v,... --shard K/N --out FILE\n", argv[0]);
        return 3;
    }
    Cfg cfg;
    for (auto &kv : splitList(cfgText, ',')) {
        size_t eq = kv.find('=');
        if (eq != std::string::npos)
            cfg[kv.substr(0, eq)] = kv.substr(eq + 1);
    }
    unsigned long long K = 0, N = 1;
    std::sscanf(shard.c_str(), "%llu/%llu", &K, &N);
    Stats st(3);
    Marker marker(markerPath);
    unsigned long long idx = 0;
    static verif_result r;
    unsigned long long total = enumerate(name, cfg, [&](const std::string &text) {
        unsigned long long my = idx++;
        if (my % N != K || st.failed)
            return;
        marker.set(text);
        verif_run_case(text.data(), text.size(), &r);
        st.record(text, r);
        marker.clear();
    });
    st.finished = true;
    st.passed = !st.failed;
    st.write(outPath);
    std::fprintf(stderr, "[enum %s shard %s] %llu of %llu cases, nontrivial %zu%s\n", name.c_str(), shard.c_str(), st.evaluations, total, st.nontrivialHashes.size(),
                 st.failed ? " FAILED" : "");
    return st.failed ? 1 : 0;
}

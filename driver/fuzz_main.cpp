// libFuzzer front-end.  The bytes are decoded into a case (selected by
// VERIF_FUZZ_TARGET), run through the linked executor, and the semantic oracle
// inside the executor decides; a violation is written out (decoded case and
// message) before trapping, statistics are flushed at exit.
//
//   rawbin   : byte 0 selects class/label, the rest is offered as a binary edge list   (C15)
//   rawtext  : byte 0 selects class/label/loader, the rest is offered as a text file   (C15, C13 differential)
//   hist     : structure-aware decoding into an operation history                      (C17)
//   wgraph   : structure-aware decoding into a weighted graph; scans/bound fed back    (C19)
#include "abi.h"
#include "stats.hpp"
#include "textref.hpp"

#include <cstdint>
#include <cstdio>
#include <cstdlib>
#include <fuzzer/FuzzedDataProvider.h>
#include <string>
#include <unistd.h>

using namespace verif;

__attribute__((section("__libfuzzer_extra_counters"))) static uint8_t extraCounters[128];

namespace {
Stats *st = nullptr;
Marker *marker = nullptr;
std::string target, outPath, failPath, prop;
unsigned long long skipped = 0;

void flushStats() {
    if (st && !outPath.empty()) {
        st->finished = true;
        st->passed = !st->failed;
        st->write(outPath);
    }
}

const char *BIN_LABELS[] = {"none", "i8", "u8", "i16", "u16", "i32", "u32", "i64", "u64", "f32", "f64"};

std::string decodeRawBin(const uint8_t *d, size_t n) {
    if (n < 1)
        return "";
    unsigned sel = d[0];
    bool directed = sel & 1;
    const char *lab = BIN_LABELS[(sel >> 1) % 11];
    std::string cls = std::string(directed ? "D" : "U") + (std::string(lab) == "none" ? "S" : "L");
    return "prop " + prop + "\nclass " + cls + "\nlabel " + lab + "\nmode rawbin\nfile " + hexEncode(std::string((const char *)d + 1, n - 1)) + "\n";
}

std::string decodeRawText(const uint8_t *d, size_t n) {
    if (n < 1)
        return "";
    unsigned sel = d[0];
    bool directed = sel & 1;
    bool names = (sel >> 1) & 1;
    static const char *labs[] = {"none", "string", "int"};
    const char *lab = labs[(sel >> 2) % 3];
    std::string cls = std::string(directed ? "D" : "U") + (std::string(lab) == "none" ? "S" : "L");
    return "prop " + prop + "\nclass " + cls + "\nlabel " + lab + "\nmode " + (names ? "rawname" : "rawindex") + "\nfile " + hexEncode(std::string((const char *)d + 1, n - 1)) + "\n";
}

std::string S(long long v) { return std::to_string(v); }

// structure-aware: bytes -> history over one of the 18 class/label configurations
std::string decodeHist(const uint8_t *d, size_t n) {
    FuzzedDataProvider p(d, n);
    static const char *cfgs[][2] = {{"DS", "none"}, {"US", "none"}, {"DM", "none"}, {"UM", "none"}, {"DW", "none"}, {"UW", "none"},
                                    {"DL", "int"}, {"UL", "int"}, {"DL", "string"}, {"UL", "string"}, {"DL", "struct"}, {"UL", "struct"},
                                    {"DL", "double"}, {"UL", "double"}, {"DL", "char"}, {"UL", "char"}, {"DL", "unsigned"}, {"UL", "unsigned"}};
    int c = p.ConsumeIntegralInRange<int>(0, 17);
    std::string fam = cfgs[c][0][1] == 'M' ? "M" : cfgs[c][0][1] == 'W' ? "W" : "L";
    bool forceMode = p.ConsumeBool();
    std::string t = "prop C17\nclass " + std::string(cfgs[c][0]) + "\nlabel " + cfgs[c][1] + "\n";
    if (forceMode)
        t += "pairvalues 1\n";
    t += "n0 " + S(p.ConsumeIntegralInRange<int>(0, 6)) + "\n";
    int nops = 0;
    while (p.remaining_bytes() > 0 && nops < 48) {
        ++nops;
        int k = p.ConsumeIntegralInRange<int>(0, forceMode ? 5 : 13);
        int a = p.ConsumeIntegralInRange<int>(0, 9), b = p.ConsumeIntegralInRange<int>(0, 9), m = p.ConsumeIntegralInRange<int>(0, 3);
        int x = p.ConsumeIntegralInRange<int>(0, 11);
        std::string xs = fam == "W" ? S(x) + ".125" : S(x);
        if (forceMode) {
            // forced duplicates: only the operations C16 allows while copies exist
            switch (k) {
            case 0: case 1: case 2: t += "op add " + S(a) + " " + S(b) + " " + S(m) + " " + xs + " " + S(fam == "M" ? 1 : (x & 1)) + "\n"; break;
            case 3: if (fam == "L") t += "op rm " + S(a) + " " + S(b) + " " + S(m) + "\n"; else t += "op dedup\n"; break;
            case 4: t += "op dedup\n"; break;
            default: t += "op resize " + S(x % 4) + "\n"; break;
            }
            continue;
        }
        switch (k) {
        case 0: case 1: case 2: t += "op add " + S(a) + " " + S(b) + " " + S(m) + " " + xs + " " + S((x & 1) ? 2 : 0) + "\n"; break;
        case 3: t += "op rm " + S(a) + " " + S(b) + " " + S(m) + "\n"; break;
        case 4: t += "op rmvtx " + S(a) + " " + S(m & 1) + "\n"; break;
        case 5: t += "op rmloops\n"; break;
        case 6: t += "op clear\n"; break;
        case 7: t += "op resize " + S(x % 4) + "\n"; break;
        case 8: t += "op setl " + S(a) + " " + S(b) + " " + S(m) + " " + S(x) + " " + S(x & 1) + "\n"; break;
        case 9: t += "op setm " + S(a) + " " + S(b) + " " + S(m) + " " + S(x % 4) + "\n"; break;
        case 10: t += "op setw " + S(a) + " " + S(b) + " " + S(m) + " " + xs + "\n"; break;
        case 11: t += "op rmk " + S(a) + " " + S(b) + " " + S(m) + " " + S(x % 4) + "\n"; break;
        case 12: t += "op recip " + S(a) + " " + S(b) + " " + S(m) + " " + S(x) + " 0\n"; break;
        default: t += "op add1 " + S(a) + " " + S(b) + " " + S(m) + " 1 0\n"; break;
        }
    }
    return t;
}

// structure-aware: bytes -> weighted graph (small weights: ties and zero-weight cycles)
std::string decodeWGraph(const uint8_t *d, size_t n) {
    FuzzedDataProvider p(d, n);
    bool directed = p.ConsumeBool();
    int nv = p.ConsumeIntegralInRange<int>(2, 14);
    std::string t = "prop C19\nclass " + std::string(directed ? "DW" : "UW") + "\nlabel none\nwmode int\nn " + S(nv) + "\n";
    int ne = 0;
    while (p.remaining_bytes() > 0 && ne < 80) {
        ++ne;
        int a = p.ConsumeIntegralInRange<int>(0, nv - 1), b = p.ConsumeIntegralInRange<int>(0, nv - 1), w = p.ConsumeIntegralInRange<int>(0, 16);
        t += "op e " + S(a) + " " + S(b) + " " + S(w) + "\n";
    }
    return t;
}

} // namespace

extern "C" int LLVMFuzzerInitialize(int *, char ***) {
    const char *t = std::getenv("VERIF_FUZZ_TARGET");
    target = t ? t : "rawbin";
    const char *o = std::getenv("VERIF_FUZZ_OUT");
    outPath = o ? o : "";
    const char *f = std::getenv("VERIF_FUZZ_FAIL");
    failPath = f ? f : "";
    const char *pr = std::getenv("VERIF_FUZZ_PROP");
    prop = pr ? pr : "C15";
    st = new Stats(3);
    const char *mk = std::getenv("VERIF_FUZZ_MARKER");
    marker = new Marker(mk ? mk : "");
    std::atexit(flushStats);
    return 0;
}

extern "C" int LLVMFuzzerTestOneInput(const uint8_t *data, size_t size) {
    std::string text;
    if (target == "rawbin")
        text = decodeRawBin(data, size);
    else if (target == "rawtext")
        text = decodeRawText(data, size);
    else if (target == "hist")
        text = decodeHist(data, size);
    else if (target == "wgraph")
        text = decodeWGraph(data, size);
    if (text.empty())
        return 0;
    static verif_result r;
    marker->set(text);
    verif_run_case(text.data(), text.size(), &r);
    marker->clear();
    st->record(text, r);
    if (target == "wgraph" && r.verdict == 0 && r.digest > 0) {
        // feed "scans relative to the bound" back as coverage: the fuzzer climbs towards the bound
        unsigned long long bucket = r.work * 96 / r.digest;
        if (bucket > 127)
            bucket = 127;
        extraCounters[bucket] = 1;
    }
    if (r.verdict == 1) {
        if (!failPath.empty()) {
            FILE *f = std::fopen(failPath.c_str(), "w");
            if (f) {
                std::fprintf(f, "%s", text.c_str());
                std::fclose(f);
            }
            FILE *m = std::fopen((failPath + ".msg").c_str(), "w");
            if (m) {
                std::fprintf(m, "%s\n%s\n", r.key, r.message);
                std::fclose(m);
            }
        }
        flushStats();
        std::fprintf(stderr, "VERIF-FUZZ-VIOLATION key=%s\n%s\n", r.key, r.message);
        __builtin_trap();
    }
    return 0;
}

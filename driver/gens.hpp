// Generator registry of the rapidcheck front-end.  No BaseGraph include here.
#ifndef VERIF_GENS_HPP
#define VERIF_GENS_HPP
#include "case.hpp"
#include "gens_cfg.hpp"
#include <map>
#include <rapidcheck.h>
#include <string>

namespace verif {

void showValue(const Case &c, std::ostream &os);

// returns the generator registered under `name`; throws std::runtime_error if unknown
rc::Gen<Case> makeGen(const std::string &name, const Cfg &cfg);

} // namespace verif
#endif

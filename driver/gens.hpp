// Generator registry of the rapidcheck front-end.  No BaseGraph include here.
#ifndef VERIF_GENS_HPP
#define VERIF_GENS_HPP
#include "case.hpp"
#include <map>
#include <rapidcheck.h>
#include <string>

namespace verif {

typedef std::map<std::string, std::string> Cfg;

inline std::string cfgGet(const Cfg &c, const std::string &k, const std::string &d = "") {
    auto it = c.find(k);
    return it == c.end() ? d : it->second;
}
inline long long cfgInt(const Cfg &c, const std::string &k, long long d = 0) {
    auto it = c.find(k);
    return it == c.end() ? d : std::strtoll(it->second.c_str(), nullptr, 10);
}
inline std::vector<std::string> splitList(const std::string &s, char sep) {
    std::vector<std::string> r;
    size_t i = 0;
    while (i <= s.size()) {
        size_t j = s.find(sep, i);
        if (j == std::string::npos)
            j = s.size();
        if (j > i)
            r.push_back(s.substr(i, j - i));
        i = j + 1;
    }
    return r;
}

void showValue(const Case &c, std::ostream &os);

// returns the generator registered under `name`; throws std::runtime_error if unknown
rc::Gen<Case> makeGen(const std::string &name, const Cfg &cfg);

} // namespace verif
#endif

// cfg string helpers shared by the front-ends
#ifndef VERIF_GENS_CFG_HPP
#define VERIF_GENS_CFG_HPP
#include <cstdlib>
#include <map>
#include <string>
#include <vector>

namespace verif {

typedef std::map<std::string, std::string> Cfg;

inline std::string cfgGet(const Cfg &c, const std::string &k, const std::string &d = "") {
    auto it = c.find(k);
    return it == c.end() ? d : it->second;
}
inline long long cfgInt(const Cfg &c, const std::string &k, long long d = 0) {
    auto it = c.find(k);
    return it == c.end() ? d : std::strtoll(it->second.c_str(), nullptr, 10);
}
inline std::vector<std::string> splitList(const std::string &s, char sep) {
    std::vector<std::string> r;
    size_t i = 0;
    while (i <= s.size()) {
        size_t j = s.find(sep, i);
        if (j == std::string::npos)
            j = s.size();
        if (j > i)
            r.push_back(s.substr(i, j - i));
        i = j + 1;
    }
    return r;
}

} // namespace verif
#endif

// Generators for graph-shaped cases (C09-C12, C14, C19) and files (C13-C15).
#include "gens.hpp"
#include "textref.hpp"
#include <algorithm>
#include <cstdio>
#include <set>

using namespace rc;

namespace verif {

Gen<int> uni(int lo, int hi);
Gen<int> wel(std::initializer_list<std::pair<std::size_t, int>> pairs);

namespace {
std::string S(long long v) { return std::to_string(v); }

Op eOp(int i, int j, int x) {
    Op o;
    o.kind = "e";
    o.a = {S(i), S(j), S(x)};
    return o;
}
} // namespace

// cfg: prop, classes, nmax (default 9), pads=0|1, extra="k v;k v", dense=0..100 (percentage of dense cases), xmax
Gen<Case> makeGraphGen(const Cfg &cfg) {
    std::vector<std::string> classes = splitList(cfgGet(cfg, "classes", "DS:none"), ';');
    std::string prop = cfgGet(cfg, "prop", "C09");
    int nmax = (int)cfgInt(cfg, "nmax", 9);
    int nmin = (int)cfgInt(cfg, "nmin", 0);
    bool pads = cfgInt(cfg, "pads", 0) != 0;
    int xmax = (int)cfgInt(cfg, "xmax", 12);
    std::string extra = cfgGet(cfg, "extra", "");
    int subsets = (int)cfgInt(cfg, "subsets", 0);
    bool conc = cfgInt(cfg, "conc", 0) != 0;
    int removals = (int)cfgInt(cfg, "removals", 12);
    int bigPct = (int)cfgInt(cfg, "big_pct", 0);       // percentage of cases with 66..100 vertices and a vertex of degree > 64
    int wrapPermille = (int)cfgInt(cfg, "wrap_permille", 0); // cases that repeat a search after 2^8-1 / 2^16-1 other searches
    int ringPct = (int)cfgInt(cfg, "ring_pct", 0); // percentage of cases with 150..200 vertices each joined to the next 40..60 (thousands of edges)
    int sets = (int)cfgInt(cfg, "sets", 0); // percentage of `w` entries (value set through setEdgeWeight / setEdgeMultiplicity / setEdgeLabel) among the edge ops
    bool fresh = cfgInt(cfg, "fresh", 0) != 0; // every case in a forked child, several classes in a generated order
    int via = (int)cfgInt(cfg, "via", 0); // C11/C12: percentage of cases whose searched object is a copy, a container-constructor rebuild or a moved-to object
    int prefill = (int)cfgInt(cfg, "prefill", 0); // C13/C14 round trips: percentage of cases whose output path already holds a file (junk or well-formed)
    int forced = (int)cfgInt(cfg, "forced", 0); // percentage of forced (duplicate-creating) adds // percentage of `r` (removeEdge) entries among the edge ops
    return gen::exec([=]() {
        std::string cl = *gen::resize(kNominalSize, gen::elementOf(classes));
        auto parts = splitList(cl, ':');
        Case c;
        c.set("prop", prop);
        c.set("class", parts[0]);
        c.set("label", parts.size() > 1 ? parts[1] : "none");
        for (auto &kv : splitList(extra, ';')) {
            auto sp = kv.find(' ');
            if (sp != std::string::npos)
                c.set(kv.substr(0, sp), kv.substr(sp + 1));
        }
        int n = *gen::resize(kNominalSize, gen::weightedOneOf<int>({{1, gen::just(nmin)}, {6, uni(nmin, std::max(nmin, std::min(nmax, 5)) + 1)}, {4, uni(nmin, nmax + 1)}}));
        bool big = bigPct > 0 && *uni(0, 100) < bigPct;
        if (big)
            n = *uni(66, 101);
        bool ring = !big && ringPct > 0 && *uni(0, 100) < ringPct;
        if (ring)
            n = *uni(150, 201);
        c.set("n", S(n));
        if (wrapPermille > 0) {
            int w = *uni(0, 1000);
            if (w < wrapPermille)
                c.set("wrap_calls", w * 8 < wrapPermille ? "65536" : "256");
        }
        if (fresh) {
            c.set("fresh", "1");
            c.set("fresh_order", S(*uni(0, 6)));
        }
        if (conc) {
            c.set("threads", S(*wel({{1, 2}, {2, 4}, {1, 8}})));
            c.set("rounds", S(*uni(1, 4)));
            c.set("orderkey", S(*uni(0, 50)));
            c.set("churn", S(*wel({{8, 0}, {3, 40}, {2, 300}, {2, 20000}, {1, 70000}})));
        }
        if (via > 0 && *uni(0, 100) < via)
            c.set("via", S(*uni(1, 4)));
        if (prefill > 0 && *uni(0, 100) < prefill)
            c.set("prefill", S(*uni(1, 4)));
        if (pads && *uni(0, 4) == 0) {
            c.set("pad_front", S(*uni(0, 3)));
            c.set("pad_back", S(*uni(0, 3)));
        }
        // edges: raw endpoints reduced modulo n by the executor; small values dominate so that
        // repeats, reciprocal pairs and self-loops all occur
        int nn = std::max(n, 1);
        auto eg = gen::map(gen::tuple(uni(0, nn), uni(0, nn), uni(0, xmax), wel({{5, 0}, {1, 1}, {1, 2}}), uni(0, 100)), [removals, forced, sets](const std::tuple<int, int, int, int, int> &t) {
            int i = std::get<0>(t), j = std::get<1>(t);
            if (std::get<3>(t) == 1)
                j = i; // self-loop
            Op o = eOp(i, j, std::get<2>(t));
            if (std::get<4>(t) >= 100 - forced) {
                o.kind = "f"; // forced duplicate (only the labelled classes act on it)
            } else if (std::get<4>(t) >= 100 - forced - sets) {
                o.kind = "w"; // the value of the pair set through the setter, in the orientation given
            } else if (std::get<4>(t) < removals) {
                // removal history: removeEdge(i, j) in the orientation given
                o.kind = "r";
                o.a.resize(2);
            }
            return o;
        });
        double density = *gen::resize(kNominalSize, gen::element(0.15, 0.4, 1.0, 2.5));
        if (big || ring)
            density = ring ? 0.002 : 0.02;
        c.ops = *gen::scale(density * nn * nn / 40.0, gen::container<std::vector<Op>>(eg));
        if (ring) {
            Op o;
            o.kind = "ring";
            o.a = {S(*uni(40, 61)), S(*uni(0, xmax))};
            c.ops.insert(c.ops.begin() + *uni(0, (int)c.ops.size() + 1), o);
        }
        if (big) {
            // a vertex of degree > 64 (anywhere in the index range, so that it has smaller- and larger-indexed neighbours)
            int hubs = *uni(1, 3);
            for (int h = 0; h < hubs; ++h) {
                Op o;
                o.kind = "hub";
                o.a = {S(*uni(0, nn)), S(*uni(0, nn)), S(*uni(65, nn + 1)), S(*uni(0, xmax))};
                c.ops.insert(c.ops.begin() + *uni(0, (int)c.ops.size() + 1), o);
            }
        }
        for (int k = 0; k < subsets; ++k) {
            Op o;
            o.kind = "s";
            o.a = {S(*uni(0, 1 << std::min(nn, 20)))};
            c.ops.push_back(o);
            if (nn > 20) {
                Op q;
                q.kind = "sr";
                q.a = {S(*uni(0, nn)), S(*wel({{1, 0}, {3, nn}, {3, nn - 1}, {3, *uni(0, nn + 1)}})), S(*wel({{4, 1}, {1, 2}, {1, 3}}))};
                c.ops.push_back(q);
            }
        }
        return c;
    });
}

// cfg: prop, classes, families="layered;grid;...", maxa, maxb
Gen<Case> makeFamilyGen(const Cfg &cfg) {
    std::vector<std::string> classes = splitList(cfgGet(cfg, "classes", "DS:none"), ';');
    std::vector<std::string> fams = splitList(cfgGet(cfg, "families", "layered;grid;cdag;ladder;diamonds;looppath;tristrip;cliquechain"), ';');
    std::string prop = cfgGet(cfg, "prop", "C19");
    std::string extra = cfgGet(cfg, "extra", "");
    // small=1 (C11): sizes at which every pair has at most 4^7 shortest paths, so that the complete path sets
    // can be listed and compared with the reference enumeration
    bool small = cfgGet(cfg, "small", "0") == "1";
    return gen::exec([=]() {
        std::string cl = *gen::resize(kNominalSize, gen::elementOf(classes));
        auto parts = splitList(cl, ':');
        Case c;
        c.set("prop", prop);
        c.set("class", parts[0]);
        c.set("label", parts.size() > 1 ? parts[1] : "none");
        for (auto &kv : splitList(extra, ';')) {
            auto sp = kv.find(' ');
            if (sp != std::string::npos)
                c.set(kv.substr(0, sp), kv.substr(sp + 1));
        }
        std::string fam = *gen::resize(kNominalSize, gen::elementOf(fams));
        c.set("family", fam);
        int a = 2, b = 4;
        if (small) {
            if (fam == "layered") { a = *uni(2, 5); b = *uni(2, a == 4 ? 7 : 9); }
            else if (fam == "grid") { a = *uni(2, 8); b = *uni(2, 8); }
            else if (fam == "cdag") { a = *uni(2, 13); b = 0; }
            else if (fam == "ladder") { a = *uni(2, 9); b = 0; }
            else if (fam == "diamonds") { a = *uni(2, 5); b = *uni(2, a == 4 ? 7 : 9); }
            else if (fam == "looppath") { a = *uni(2, 21); b = 0; }
            else if (fam == "tristrip") { a = *uni(3, 21); b = 0; }
            else if (fam == "cliquechain") { a = *uni(2, 6); b = *uni(1, 6); }
        } else if (fam == "layered") { a = *uni(2, 5); b = *uni(2, 41); }
        else if (fam == "grid") { a = *uni(2, 11); b = *uni(2, 11); }
        else if (fam == "cdag") { a = *uni(2, 31); b = 0; }
        else if (fam == "ladder") { a = *uni(2, 41); b = 0; }
        else if (fam == "diamonds") { a = *uni(2, 5); b = *uni(2, 31); }
        else if (fam == "looppath") { a = *uni(2, 151); b = 0; }
        else if (fam == "tristrip") { a = *uni(3, 151); b = 0; }
        else if (fam == "cliquechain") { a = *uni(2, 7); b = *uni(1, 31); }
        else if (fam == "fanin") { a = *uni(2, 25); b = *uni(2, 49); }
        c.set("fa", S(a));
        c.set("fb", S(b));
        c.set("fw", S(*wel({{3, 0}, {3, 1}, {2, 2}, {2, 3}})));
        return c;
    });
}

// ---------------------------------------------------------------- C13: well-formed text files from the documented grammar
// cfg: classes="DS:none;DL:string;...", modes="indexfile;namefile"
Gen<Case> makeTextFileGen(const Cfg &cfg) {
    std::vector<std::string> classes = splitList(cfgGet(cfg, "classes", "DS:none;DL:string"), ';');
    std::vector<std::string> modes = splitList(cfgGet(cfg, "modes", "indexfile;namefile"), ';');
    return gen::exec([=]() {
        std::string cl = *gen::resize(kNominalSize, gen::elementOf(classes));
        auto parts = splitList(cl, ':');
        std::string label = parts.size() > 1 ? parts[1] : "none";
        std::string mode = *gen::resize(kNominalSize, gen::elementOf(modes));
        bool directed = parts[0][0] == 'D';
        static const char *pool[] = {"a", "b", "A", "node1", "#x", "7", "007", "x#y", "\xc3\xa9", "a.b", "-", "__", "v12", "B", "0", "zz"};
        int N = mode == "namefile" ? *uni(1, 17) : *uni(1, 16);
        auto ws = [&](int lo, int hi) {
            std::string w;
            int k = *uni(lo, hi + 1);
            for (int i = 0; i < k; ++i)
                w += *uni(0, 3) == 0 ? '\t' : ' ';
            return w;
        };
        auto anyText = [&](int maxLen, bool firstNonBlank) {
            static const char alpha[] = "ab z#\t 01,;|xY";
            std::string t;
            int k = *uni(firstNonBlank ? 1 : 0, maxLen + 1);
            for (int i = 0; i < k; ++i) {
                char ch = alpha[*uni(0, (int)sizeof(alpha) - 1)];
                if (i == 0 && firstNonBlank && (ch == ' ' || ch == '\t'))
                    ch = 'q';
                t += ch;
            }
            return t;
        };
        // one file in twelve has very long comments / label texts / blank runs (buffers of a line reader)
        bool longFile = *uni(0, 12) == 0;
        int longLen = longFile ? *gen::resize(kNominalSize, gen::element(300, 1100, 4200, 9000)) : 0;
        std::vector<int> raw = *gen::scale(0.25, gen::container<std::vector<int>>(uni(0, N * N)));
        std::set<std::pair<int, int>> seen;
        std::string text;
        if (*uni(0, 3) == 0)
            text += "# Vertex1 Vertex2 Label\n";
        for (int p : raw) {
            int a = p / N, b = p % N;
            std::pair<int, int> key = (!directed && a > b) ? std::make_pair(b, a) : std::make_pair(a, b);
            if (!seen.insert(key).second)
                continue;
            if (*uni(0, 4) == 0)
                text += "#" + anyText(longFile && *uni(0, 3) == 0 ? longLen : 10, false) + "\n";
            std::string ta = mode == "namefile" ? pool[a % 16] : std::to_string(a);
            std::string tb = mode == "namefile" ? pool[b % 16] : std::to_string(b);
            std::string lead = *uni(0, 3) == 0 ? ws(1, 3) : "";
            if (ta[0] == '#' && lead.empty())
                lead = " "; // a name may start with '#' only if the line does not
            std::string line = lead + ta + ws(1, 3) + tb;
            int tail = *uni(0, 4);
            if (label == "int") {
                line += ws(1, 2) + std::to_string(*uni(0, 1000));
            } else if (label == "string" || (label == "none" && tail == 3)) {
                if (tail >= 1)
                    line += ws(1, 3) + anyText(longFile && *uni(0, 3) == 0 ? longLen : 8, true);
                else if (*uni(0, 2))
                    line += ws(1, 2);
            } else if (tail == 1)
                line += ws(1, 2);
            text += line + "\n";
        }
        if (*uni(0, 5) == 0)
            text += "#" + anyText(6, false) + "\n";
        if (!text.empty() && *uni(0, 5) == 0)
            text.pop_back(); // last line without '\n'
        Case c;
        c.set("prop", "C13");
        c.set("class", parts[0]);
        c.set("label", label);
        c.set("mode", mode);
        c.set("file", hexEncode(text));
        return c;
    });
}

rc::Gen<Case> makeFileGen(const std::string &name, const Cfg &cfg, bool &found);

rc::Gen<Case> makeExtraGen(const std::string &name, const Cfg &cfg, bool &found) {
    found = true;
    if (name == "graph")
        return makeGraphGen(cfg);
    if (name == "family")
        return makeFamilyGen(cfg);
    if (name == "textfile")
        return makeTextFileGen(cfg);
    found = false;
    return rc::gen::just(Case());
}

} // namespace verif

// Further generators (filled in per property).
#include "gens.hpp"
namespace verif {
rc::Gen<Case> makeExtraGen(const std::string &name, const Cfg &cfg, bool &found) {
    found = false;
    return rc::gen::just(Case());
}
} // namespace verif

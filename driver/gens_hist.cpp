// rapidcheck generators for operation histories (C01-C07, C16 and the streams re-used by C17).
#include "gens.hpp"
#include <cstdio>

using namespace rc;

namespace verif {

void showValue(const Case &c, std::ostream &os) { os << "\n" << c.text(); }

namespace {

Op mkOp(const std::string &kind, std::initializer_list<std::string> a) {
    Op o;
    o.kind = kind;
    o.a.assign(a.begin(), a.end());
    return o;
}
std::string S(long long v) { return std::to_string(v); }
} // namespace

// rapidcheck scales inRange (and everything built on it) with the size parameter;
// leaf choices here must be uniform at every size, so they are pinned to the nominal size.
Gen<int> uni(int lo, int hi) { return gen::resize(kNominalSize, gen::inRange(lo, hi)); }
Gen<int> wel(std::initializer_list<std::pair<std::size_t, int>> pairs) { return gen::resize(kNominalSize, gen::weightedElement<int>(pairs)); }

namespace {

// raw vertex argument: small values dominate (they are reduced modulo the current size)
// (the last alternative: indices next to word-size boundaries, which matter on the graphs with hundreds of vertices)
Gen<int> gVtx() {
    return gen::resize(kNominalSize, gen::weightedOneOf<int>({{8, uni(0, 6)}, {2, uni(0, 40)}, {2, uni(0, 140)}, {1, uni(0, 1400)},
                                                              {2, gen::element(31, 32, 33, 63, 64, 65, 127, 128, 129, 255, 256, 257, 511, 512, 513)}}));
}
// pair selection mode: 0 raw, 1 existing edge (orientation by parity of b), 2 existing edge flipped, 3 self-loop,
// 4 the pair of the previous pair operation, 5 the same the other way round
Gen<int> gMode() { return wel({{6, 0}, {3, 1}, {1, 3}, {1, 2}, {3, 4}, {1, 5}}); }

std::string exactWeight(int k, int wexp = 0) {
    // k/8 * 2^wexp: every such weight and every partial sum of < 2^30 of them is exactly representable;
    // 17 significant digits round-trip through strtod
    char b[64];
    if (wexp == 0)
        std::snprintf(b, sizeof b, "%.3f", k / 8.0);
    else
        std::snprintf(b, sizeof b, "%.17g", std::ldexp(k / 8.0, wexp));
    return b;
}
std::string roundedWeight(int sign, int e, int frac) {
    // full 53-bit mantissas over 20 binades: sums are not exactly representable even in long double,
    // so a running total depends on the order of accumulation
    double w = (1.0 + frac / 1048576.0) / 3.0 * std::ldexp(1.0, e);
    if (sign)
        w = -w;
    char b[64];
    std::snprintf(b, sizeof b, "%.17g", w);
    return b;
}

Gen<std::string> gWeight(bool exact, bool nonneg = false, int wexp = 0) {
    if (exact)
        return gen::map(gen::resize(kNominalSize, gen::weightedOneOf<int>({{6, uni(-40, 41)}, {1, gen::just(0)}, {3, uni(-65536, 65537)}})),
                        [nonneg, wexp](int k) { return exactWeight(nonneg && k < 0 ? -k : k, wexp); });
    return gen::map(gen::tuple(uni(0, 2), uni(-10, 10), uni(0, 1048576)), [nonneg](const std::tuple<int, int, int> &t) {
        return roundedWeight(nonneg ? 0 : std::get<0>(t), std::get<1>(t), std::get<2>(t));
    });
}

// multiplicities: small values dominate; a few are so large that the sum over a handful of edges exceeds 2^32
// (getTotalEdgeNumber and the degrees are size_t; the executor skips an op that would push ONE pair beyond UINT_MAX)
Gen<long long> gMult() {
    return gen::resize(kNominalSize, gen::weightedElement<long long>({{4, 0}, {10, 1}, {8, 2}, {6, 3}, {2, 7}, {2, 1000}, {1, 2147483648LL}, {1, 4000000000LL}}));
}

struct HistCfg {
    char fam;       // L, M, W
    bool directed;
    bool nolabel;
    int forcePct;
    bool exact;
    int wexp = 0;   // exact mode: weights are k/8 * 2^wexp (0, -62: all far below machine epsilon, +40: large)
};

Gen<Op> gOpOfKind(const std::string &kind, const HistCfg &h) {
    auto force = gen::map(uni(0, 100), [h](int r) { return r < h.forcePct ? 1 : 0; });
    if (kind == "add") {
        if (h.fam == 'W')
            return gen::map(gen::tuple(gVtx(), gVtx(), gMode(), gWeight(h.exact, false, h.wexp), force),
                            [](const std::tuple<int, int, int, std::string, int> &t) {
                                return mkOp("add", {S(std::get<0>(t)), S(std::get<1>(t)), S(std::get<2>(t)), std::get<3>(t), S(std::get<4>(t))});
                            });
        if (h.fam == 'M')
            return gen::map(gen::tuple(gVtx(), gVtx(), gMode(), gMult(), force), [](const std::tuple<int, int, int, long long, int> &t) {
                return mkOp("add", {S(std::get<0>(t)), S(std::get<1>(t)), S(std::get<2>(t)), S(std::get<3>(t)), S(std::get<4>(t))});
            });
        // L: bit1 of the flags selects the overload without label
        return gen::map(gen::tuple(gVtx(), gVtx(), gMode(), uni(0, 12), force, wel({{3, 0}, {1, 2}})),
                        [](const std::tuple<int, int, int, int, int, int> &t) {
                            return mkOp("add", {S(std::get<0>(t)), S(std::get<1>(t)), S(std::get<2>(t)), S(std::get<3>(t)),
                                                S(std::get<4>(t) | std::get<5>(t))});
                        });
    }
    if (kind == "add1")
        return gen::map(gen::tuple(gVtx(), gVtx(), gMode(), force), [](const std::tuple<int, int, int, int> &t) {
            return mkOp("add1", {S(std::get<0>(t)), S(std::get<1>(t)), S(std::get<2>(t)), "1", S(std::get<3>(t))});
        });
    if (kind == "recip" || kind == "recip1") {
        if (h.fam == 'M')
            return gen::map(gen::tuple(gVtx(), gVtx(), gMode(), gMult()), [kind](const std::tuple<int, int, int, long long> &t) {
                return mkOp(kind, {S(std::get<0>(t)), S(std::get<1>(t)), S(std::get<2>(t)), S(std::get<3>(t)), "0"});
            });
        return gen::map(gen::tuple(gVtx(), gVtx(), gMode(), uni(0, 12), wel({{3, 0}, {1, 2}})),
                        [](const std::tuple<int, int, int, int, int> &t) {
                            return mkOp("recip", {S(std::get<0>(t)), S(std::get<1>(t)), S(std::get<2>(t)), S(std::get<3>(t)), S(std::get<4>(t))});
                        });
    }
    if (kind == "rm")
        return gen::map(gen::tuple(gVtx(), gVtx(), gMode()), [](const std::tuple<int, int, int> &t) {
            return mkOp("rm", {S(std::get<0>(t)), S(std::get<1>(t)), S(std::get<2>(t))});
        });
    if (kind == "rmk")
        return gen::map(gen::tuple(gVtx(), gVtx(), gMode(), gMult()), [](const std::tuple<int, int, int, long long> &t) {
            return mkOp("rmk", {S(std::get<0>(t)), S(std::get<1>(t)), S(std::get<2>(t)), S(std::get<3>(t))});
        });
    if (kind == "setm")
        return gen::map(gen::tuple(gVtx(), gVtx(), gMode(), gMult()), [](const std::tuple<int, int, int, long long> &t) {
            return mkOp("setm", {S(std::get<0>(t)), S(std::get<1>(t)), S(std::get<2>(t)), S(std::get<3>(t))});
        });
    if (kind == "setw")
        return gen::map(gen::tuple(gVtx(), gVtx(), gMode(), gWeight(h.exact, false, h.wexp)), [](const std::tuple<int, int, int, std::string> &t) {
            return mkOp("setw", {S(std::get<0>(t)), S(std::get<1>(t)), S(std::get<2>(t)), std::get<3>(t)});
        });
    if (kind == "setl")
        return gen::map(gen::tuple(gVtx(), gVtx(), gMode(), uni(0, 12), wel({{3, 0}, {1, 1}})),
                        [](const std::tuple<int, int, int, int, int> &t) {
                            return mkOp("setl", {S(std::get<0>(t)), S(std::get<1>(t)), S(std::get<2>(t)), S(std::get<3>(t)), S(std::get<4>(t))});
                        });
    if (kind == "rmvtx")
        return gen::map(gen::tuple(gVtx(), wel({{1, 0}, {1, 1}})),
                        [](const std::tuple<int, int> &t) { return mkOp("rmvtx", {S(std::get<0>(t)), S(std::get<1>(t))}); });
    if (kind == "resize")
        return gen::map(uni(0, 4), [](int k) { return mkOp("resize", {S(k)}); });
    if (kind == "rmloops" || kind == "clear" || kind == "dedup" || kind == "badall" || kind == "xrev" || kind == "xconv")
        return gen::just(mkOp(kind, {}));
    if (kind == "xcopy")
        return gen::map(gen::tuple(wel({{2, 0}, {2, 1}, {2, 2}, {3, 3}}), uni(0, 40), uni(0, 4), uni(0, 3)), [](const std::tuple<int, int, int, int> &t) {
            return mkOp("xcopy", {S(std::get<0>(t)), S(std::get<1>(t)), S(std::get<2>(t)), S(std::get<3>(t))});
        });
    if (kind == "churn") {
        auto cnt = wel({{6, 3}, {3, 300}, {2, 5000}, {1, 66000}});
        if (h.fam == 'W')
            return gen::map(gen::tuple(gVtx(), gVtx(), gWeight(h.exact, false, h.wexp), gWeight(h.exact, false, h.wexp), cnt), [](const std::tuple<int, int, std::string, std::string, int> &t) {
                return mkOp("churn", {S(std::get<0>(t)), S(std::get<1>(t)), "1", std::get<2>(t), std::get<3>(t), S(std::get<4>(t))});
            });
        return gen::map(gen::tuple(gVtx(), gVtx(), uni(0, 12), uni(0, 12), cnt), [](const std::tuple<int, int, int, int, int> &t) {
            return mkOp("churn", {S(std::get<0>(t)), S(std::get<1>(t)), "1", S(std::get<2>(t)), S(std::get<3>(t)), S(std::get<4>(t))});
        });
    }
    if (kind == "fill") {
        if (h.fam == 'W')
            return gen::map(gen::tuple(gVtx(), uni(2, 90), gWeight(h.exact, false, h.wexp), force), [](const std::tuple<int, int, std::string, int> &t) {
                return mkOp("fill", {S(std::get<0>(t)), S(std::get<1>(t)), std::get<2>(t), S(std::get<3>(t))});
            });
        return gen::map(gen::tuple(gVtx(), uni(2, 90), uni(0, 12), force), [](const std::tuple<int, int, int, int> &t) {
            return mkOp("fill", {S(std::get<0>(t)), S(std::get<1>(t)), S(std::get<2>(t)), S(std::get<3>(t))});
        });
    }
    if (kind == "bad")
        return gen::map(gen::tuple(uni(0, 64), uni(0, 3), uni(0, 4), uni(0, 64), gVtx(), gVtx()), [](const std::tuple<int, int, int, int, int, int> &t) {
            return mkOp("bad", {S(std::get<0>(t)), S(std::get<1>(t)), S(std::get<2>(t)), S(std::get<3>(t)), S(std::get<4>(t)), S(std::get<5>(t))});
        });
    if (kind == "shrink")
        return gen::map(uni(0, 12), [](int k) { return mkOp("shrink", {S(k)}); });
    throw std::runtime_error("unknown op kind in mix: " + kind);
}

// trailing "alias": the executor passes the vertex arguments as references into the graph's own neighbour lists
Gen<Op> withAlias(Gen<Op> g) {
    return gen::map(gen::tuple(std::move(g), wel({{6, 0}, {1, 1}, {1, 2}})), [](const std::tuple<Op, int> &t) {
        Op o = std::get<0>(t);
        if (std::get<1>(t) == 1)
            o.a.push_back("alias");
        else if (std::get<1>(t) == 2)
            o.a.push_back("alias2");
        return o;
    });
}

Gen<int> gN0() {
    return wel({{5, 0}, {10, 1}, {18, 2}, {19, 3}, {18, 4}, {8, 5}, {8, 6}, {7, 7}, {7, 8}});
}

} // namespace

// cfg: prop, classes="DL:int;US:none", mix="add:45;rm:20", force=0..100, mode=exact|rounded|both,
//      pairvalues=0|1, final="dedup" (appended), labelsets=0|1
Gen<Case> makeHistGen(const Cfg &cfg) {
    std::vector<std::string> classes = splitList(cfgGet(cfg, "classes", "DS:none"), ';');
    std::vector<std::pair<int, std::string>> mix;
    for (auto &m : splitList(cfgGet(cfg, "mix", "add:50;rm:20;clear:5"), ';')) {
        auto kv = splitList(m, ':');
        mix.emplace_back(kv.size() > 1 ? std::atoi(kv[1].c_str()) : 1, kv[0]);
    }
    std::string prop = cfgGet(cfg, "prop", "C01");
    int forcePct = (int)cfgInt(cfg, "force", 0);
    std::string mode = cfgGet(cfg, "mode", "exact");
    std::string fin = cfgGet(cfg, "final", "");
    bool pairvalues = cfgInt(cfg, "pairvalues", 0) != 0;
    bool bigmult = cfgInt(cfg, "bigmult", 0) != 0;
    std::string labelsets = cfgGet(cfg, "labelsets", "");
    int zeroPct = (int)cfgInt(cfg, "zero_pct", 0);
    int bignPct = (int)cfgInt(cfg, "bign_pct", 0);
    int hugePct = (int)cfgInt(cfg, "huge_pct", 0);
    int sparsePct = (int)cfgInt(cfg, "sparse_pct", 0);
    bool safetyOnly = cfgInt(cfg, "safety_only", 0) != 0;

    return gen::exec([=]() {
        std::string cl = *gen::resize(kNominalSize, gen::elementOf(classes));
        auto parts = splitList(cl, ':');
        HistCfg h;
        h.directed = parts[0][0] == 'D';
        h.fam = parts[0][1] == 'M' ? 'M' : parts[0][1] == 'W' ? 'W' : 'L';
        h.nolabel = parts[0][1] == 'S';
        h.forcePct = forcePct;
        h.exact = mode == "exact" ? true : mode == "rounded" ? false : *gen::arbitrary<bool>();
        if (h.fam == 'W' && h.exact)
            h.wexp = *wel({{7, 0}, {2, -62}, {1, 40}});
        std::vector<std::pair<std::size_t, Gen<Op>>> gens;
        for (auto &m : mix) {
            // ops that do not exist for the class are left out of the mix
            if ((m.second == "recip" || m.second == "recip1") && (!h.directed || h.fam == 'W'))
                continue;
            if (m.second == "recip1" && h.fam != 'M')
                continue;
            if ((m.second == "add1" || m.second == "rmk" || m.second == "setm") && h.fam != 'M')
                continue;
            if (m.second == "setw" && h.fam != 'W')
                continue;
            if (m.second == "setl" && (h.fam != 'L' || h.nolabel))
                continue;
            bool aliasable = m.second == "rm" || m.second == "rmk" || m.second == "setm" || m.second == "rmvtx";
            gens.emplace_back((std::size_t)m.first, aliasable ? withAlias(gOpOfKind(m.second, h)) : gOpOfKind(m.second, h));
        }
        Case c;
        c.set("prop", prop);
        c.set("class", parts[0]);
        c.set("label", parts.size() > 1 ? parts[1] : "none");
        if (h.fam == 'W')
            c.set("mode", h.exact ? "exact" : "rounded");
        if (pairvalues)
            c.set("pairvalues", "1");
        if (bigmult && h.fam == 'M')
            c.set("bigmult", "1");
        if (!labelsets.empty())
            c.set("labelsets", labelsets);
        if (safetyOnly)
            c.set("safety_only", "1");
        if (sparsePct > 0 && *uni(0, 100) < sparsePct)
            c.set("sparse", S(*uni(2, 6)));
        bool hugeCase = hugePct > 0 && *uni(0, 100) < hugePct;
        bool big = !hugeCase && bignPct > 0 && *uni(0, 100) < bignPct;
        if (hugeCase) {
            // hundreds of vertices, light observation, short histories
            c.set("huge", "1");
            c.set("n0", S(*uni(129, 701)));
        } else if (big) {
            // graphs with 33..70 vertices (bit-mask "fast paths", word-size effects); vertex arguments then use the whole range
            c.set("bign", "1");
            c.set("n0", S(*uni(33, 71)));
        } else
            c.set("n0", S(*uni(0, 100) < zeroPct ? 0 : *gN0()));
        // weighted choice among the op generators (weightedOneOf only takes a literal list)
        std::size_t total = 0;
        for (auto &g : gens)
            total += g.first;
        auto gensCopy = gens;
        Gen<Op> opg = gen::mapcat(gen::resize(kNominalSize, gen::inRange<std::size_t>(0, total)), [gensCopy](std::size_t r) {
            for (auto &g : gensCopy) {
                if (r < g.first)
                    return g.second;
                r -= g.first;
            }
            return gensCopy.back().second;
        });
        c.ops = *gen::container<std::vector<Op>>(opg);
        if (!fin.empty())
            c.ops.push_back(mkOp(fin, {}));
        return c;
    });
}


// ---------------------------------------------------------------- C06: pairs of histories
// cfg: classes, mix (per-history op mix)
Gen<Case> makeEqGen(const Cfg &cfg) {
    int eqBignPct = (int)cfgInt(cfg, "bign_pct", 0);
    std::vector<std::string> classes = splitList(cfgGet(cfg, "classes", "DS:none"), ';');
    std::vector<std::pair<int, std::string>> mix;
    for (auto &m : splitList(cfgGet(cfg, "mix", "add:50;rm:20;clear:5"), ';')) {
        auto kv = splitList(m, ':');
        mix.emplace_back(kv.size() > 1 ? std::atoi(kv[1].c_str()) : 1, kv[0]);
    }
    return gen::exec([=]() {
        std::string cl = *gen::resize(kNominalSize, gen::elementOf(classes));
        auto parts = splitList(cl, ':');
        HistCfg h;
        h.directed = parts[0][0] == 'D';
        h.fam = parts[0][1] == 'M' ? 'M' : parts[0][1] == 'W' ? 'W' : 'L';
        h.nolabel = parts[0][1] == 'S';
        h.forcePct = 0;
        // weighted classes: half of the cases use weights whose sums are NOT exactly representable, so that the
        // running totals of two histories of the same graph differ in their last bits
        h.exact = h.fam == 'W' ? *gen::arbitrary<bool>() : true;
        if (h.fam == 'W' && h.exact)
            h.wexp = *wel({{7, 0}, {2, -62}, {1, 40}});
        std::vector<std::pair<std::size_t, Gen<Op>>> gens;
        std::size_t total = 0;
        for (auto &m : mix) {
            if ((m.second == "recip" || m.second == "recip1") && (!h.directed || h.fam == 'W'))
                continue;
            if (m.second == "recip1" && h.fam != 'M')
                continue;
            if ((m.second == "add1" || m.second == "rmk" || m.second == "setm") && h.fam != 'M')
                continue;
            if (m.second == "setw" && h.fam != 'W')
                continue;
            if (m.second == "setl" && (h.fam != 'L' || h.nolabel))
                continue;
            gens.emplace_back((std::size_t)m.first, gOpOfKind(m.second, h));
            total += (std::size_t)m.first;
        }
        Gen<Op> opg = gen::mapcat(gen::resize(kNominalSize, gen::inRange<std::size_t>(0, total)), [gens](std::size_t r) {
            for (auto &g : gens) {
                if (r < g.first)
                    return g.second;
                r -= g.first;
            }
            return gens.back().second;
        });
        auto withTarget = [](std::vector<Op> v, int t) {
            for (auto &o : v)
                o.target = t;
            return v;
        };
        auto rebuildOp = [&](int target) {
            Op o;
            o.kind = "rebuild";
            o.target = target;
            o.a.push_back(S(*uni(0, 4)));
            std::vector<int> keys = *gen::container<std::vector<int>>(uni(0, 64));
            if (keys.empty())
                keys.push_back(0);
            for (int k : keys)
                o.a.push_back(S(k));
            return o;
        };
        Case c;
        c.set("prop", "C06");
        c.set("class", parts[0]);
        c.set("label", parts.size() > 1 ? parts[1] : "none");
        if (h.fam == 'W') {
            c.set("mode", h.exact ? "exact" : "rounded");
            c.set("wexp", S(h.wexp));
        }
        int scenario = *wel({{3, 0}, {3, 1}, {2, 2}, {2, 3}, {2, 4}});
        c.set("scenario", std::string(1, char('a' + scenario)));
        int n0 = *gN0();
        if (eqBignPct > 0 && *uni(0, 100) < eqBignPct && scenario != 2) {
            // a few pairs of graphs with 66-80 vertices (degree thresholds, word-size effects); `fill` ops give large degrees
            n0 = *uni(66, 81);
            c.set("bign", "1");
        }
        std::vector<Op> ops;
        auto append = [&](std::vector<Op> v) { ops.insert(ops.end(), v.begin(), v.end()); };
        if (scenario == 0 || scenario == 1) {
            // (a) same value, different history; (b) ... plus one further change
            c.set("n0", S(n0));
            c.set("n1", S(n0));
            append(withTarget(*gen::container<std::vector<Op>>(opg), 0));
            ops.push_back(rebuildOp(0));
            if (scenario == 1) {
                Op extra = *opg;
                extra.target = *uni(0, 2);
                ops.push_back(extra);
            }
        } else if (scenario == 4) {
            // (e) same value, then ONE EDGE MOVED: remove an existing edge and add another pair (often a self-loop)
            //     - same vertex count, same edge count, different edge set
            c.set("n0", S(n0));
            c.set("n1", S(n0));
            append(withTarget(*gen::container<std::vector<Op>>(opg), 0));
            ops.push_back(rebuildOp(0));
            int t = *uni(0, 2);
            Op rm = mkOp("rm", {S(*uni(0, 40)), S(*uni(0, 2)), "1"});
            if (h.fam == 'M')
                rm = mkOp("setm", {S(*uni(0, 40)), S(*uni(0, 2)), "1", "0"});
            rm.target = t;
            ops.push_back(rm);
            Op add = *gOpOfKind("add", h);
            add.a[2] = S(*wel({{2, 0}, {2, 3}})); // raw pair or self-loop
            add.target = t;
            ops.push_back(add);
        } else if (scenario == 2) {
            // (c) independent small histories: equal by chance and unequal both occur
            c.set("n0", S(*uni(0, 4)));
            c.set("n1", S(*uni(0, 4)));
            std::vector<Op> a = withTarget(*gen::scale(0.4, gen::container<std::vector<Op>>(opg)), 0);
            std::vector<Op> b = withTarget(*gen::scale(0.4, gen::container<std::vector<Op>>(opg)), 1);
            append(a);
            append(b);
        } else {
            // (d) copy, then mutate either side
            c.set("n0", S(n0));
            c.set("n1", S(*uni(0, 3)));
            append(withTarget(*gen::container<std::vector<Op>>(opg), 0));
            Op cp;
            cp.kind = "copy";
            cp.target = 0;
            cp.a.push_back(S(*uni(0, 2)));
            ops.push_back(cp);
            std::vector<Op> after = *gen::scale(0.3, gen::container<std::vector<Op>>(opg));
            for (auto &o : after) {
                o.target = *uni(0, 2);
                ops.push_back(o);
                if (*uni(0, 4) == 0) {
                    Op e;
                    e.kind = "eq";
                    ops.push_back(e);
                }
            }
        }
        c.ops = ops;
        return c;
    });
}

} // namespace verif

// Generator registry: name -> rapidcheck generator.
#include "gens.hpp"
#include <stdexcept>

namespace verif {
rc::Gen<Case> makeHistGen(const Cfg &cfg);
rc::Gen<Case> makeEqGen(const Cfg &cfg);
rc::Gen<Case> makeExtraGen(const std::string &name, const Cfg &cfg, bool &found);

rc::Gen<Case> makeGen(const std::string &name, const Cfg &cfg) {
    if (name == "hist")
        return makeHistGen(cfg);
    if (name == "eq")
        return makeEqGen(cfg);
    bool found = false;
    rc::Gen<Case> g = makeExtraGen(name, cfg, found);
    if (found)
        return g;
    throw std::runtime_error("unknown generator " + name);
}
} // namespace verif

// rapidcheck front-end.  Generates cases with a registered generator, runs each
// through the linked executor (C ABI), gathers statistics, and writes them as
// JSON.  Configuration of rapidcheck itself only through RC_PARAMS.
//
// usage: pbt --gen NAME [--cfg k=v,k=v,...] --out stats.json [--marker FILE] [--samples N]
#include "abi.h"
#include "gens.hpp"
#include "stats.hpp"

#include <cstdio>
#include <cstring>
#include <iostream>

using namespace verif;

int main(int argc, char **argv) {
    std::string genName, cfgText, outPath, markerPath, dumpPath, trailPath;
    size_t nSamples = 4;
    for (int i = 1; i < argc; ++i) {
        std::string a = argv[i];
        auto next = [&]() -> std::string { return i + 1 < argc ? argv[++i] : ""; };
        if (a == "--gen") genName = next();
        else if (a == "--cfg") cfgText = next();
        else if (a == "--out") outPath = next();
        else if (a == "--marker") markerPath = next();
        else if (a == "--dump") dumpPath = next();
        else if (a == "--trail") trailPath = next();
        else if (a == "--samples") nSamples = (size_t)std::atoi(next().c_str());
    }
    if (genName.empty() || outPath.empty()) {
        std::fprintf(stderr, "usage: %s --gen NAME [--cfg k=v,...] --out FILE [--marker FILE]\n", argv[0]);
        return 3;
    }
    Cfg cfg;
    for (auto &kv : splitList(cfgText, ',')) {
        size_t eq = kv.find('=');
        if (eq != std::string::npos)
            cfg[kv.substr(0, eq)] = kv.substr(eq + 1);
    }
    Stats st(nSamples);
    Marker marker(markerPath);
    rc::Gen<Case> g = makeGen(genName, cfg);
    FILE *dump = dumpPath.empty() ? nullptr : std::fopen(dumpPath.c_str(), "w");
    // --trail: every case up to and including the first failing one, in execution order (a failure that depends on what the
    // process executed before is reproduced from this file by the replay front-end)
    FILE *trail = trailPath.empty() ? nullptr : std::fopen(trailPath.c_str(), "w");
    bool trailOpen = trail != nullptr;

    bool ok = rc::check(genName + " [" + verif_executor_name() + "]", [&]() {
        Case c = *g;
        std::string text = c.text();
        marker.set(text);
        if (trailOpen) {
            std::fprintf(trail, "%s%%%%%%%% next case\n", text.c_str());
            std::fflush(trail);
        }
        static verif_result r;
        verif_run_case(text.data(), text.size(), &r);
        st.record(text, r);
        if (dump)
            std::fprintf(dump, "{\"digest\": \"%llu\", \"verdict\": %d, \"text\": \"%s\"}\n", r.digest, r.verdict, jsonEscape(text).c_str());
        marker.clear();
        if (r.verdict == 1)
            trailOpen = false;
        if (r.verdict == 1)
            RC_FAIL(std::string(r.message));
    });
    if (dump)
        std::fclose(dump);
    if (trail)
        std::fclose(trail);
    st.finished = true;
    st.passed = ok;
    st.write(outPath);
    return ok ? 0 : 1;
}

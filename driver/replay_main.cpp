// Replay front-end: runs one saved case through the executor, no library involved.
// usage: replay <file> [--quiet]      exit 0 pass, 1 violation, 2 not applicable
#include "abi.h"
#include <cstdio>
#include <cstring>
#include <fstream>
#include <iostream>
#include <sstream>
#include <string>

int main(int argc, char **argv) {
    if (argc < 2) {
        std::fprintf(stderr, "usage: %s <case-file> [--quiet]\n", argv[0]);
        return 3;
    }
    bool quiet = argc > 2 && std::strcmp(argv[2], "--quiet") == 0;
    std::ifstream f(argv[1], std::ios::binary);
    if (!f) {
        std::fprintf(stderr, "cannot open %s\n", argv[1]);
        return 3;
    }
    std::stringstream ss;
    ss << f.rdbuf();
    std::string text = ss.str();
    static verif_result r;
    int v = verif_run_case(text.data(), text.size(), &r);
    if (!quiet || v == 1) {
        std::printf("executor: %s\nverdict: %d\nnontrivial: %d\ndigest: %016llx\nwork: %llu\nkey: %s\ntags: %s\n", verif_executor_name(), r.verdict,
                    r.nontrivial, r.digest, r.work, r.key, r.tags);
        if (r.message[0])
            std::printf("message: %s\n", r.message);
    }
    return v;
}

// Replay front-end: runs one saved case through the executor, no library involved.
// usage: replay <file> [--quiet]      exit 0 pass, 1 violation, 2 not applicable
// A file may hold several cases separated by lines "%%%% next case": they run one after the other in this process
// (a failure that needs earlier calls in the same process); the result is that of the first failing case, else of the last.
#include "abi.h"
#include <cstdio>
#include <cstring>
#include <fstream>
#include <iostream>
#include <sstream>
#include <string>

int main(int argc, char **argv) {
    if (argc < 2) {
        std::fprintf(stderr, "usage: %s <case-file> [--quiet]\n", argv[0]);
        return 3;
    }
    bool quiet = argc > 2 && std::strcmp(argv[2], "--quiet") == 0;
    std::ifstream f(argv[1], std::ios::binary);
    if (!f) {
        std::fprintf(stderr, "cannot open %s\n", argv[1]);
        return 3;
    }
    std::stringstream ss;
    ss << f.rdbuf();
    std::string all = ss.str(), text;
    static verif_result r;
    int v = 0;
    const std::string sep = "%%%% next case\n";
    size_t pos = 0, index = 0;
    while (pos <= all.size()) {
        size_t e = all.find(sep, pos);
        text = all.substr(pos, e == std::string::npos ? std::string::npos : e - pos);
        pos = e == std::string::npos ? all.size() + 1 : e + sep.size();
        bool blank = text.find_first_not_of(" \t\r\n") == std::string::npos;
        if (blank && index > 0)
            continue;
        ++index;
        v = verif_run_case(text.data(), text.size(), &r);
        if (v == 1) {
            if (index > 1 || pos <= all.size())
                std::printf("case #%zu of the file fails\n", index);
            break;
        }
    }
    if (!quiet || v == 1) {
        std::printf("executor: %s\nverdict: %d\nnontrivial: %d\ndigest: %016llx\nwork: %llu\nkey: %s\ntags: %s\n", verif_executor_name(), r.verdict,
                    r.nontrivial, r.digest, r.work, r.key, r.tags);
        if (r.message[0])
            std::printf("message: %s\n", r.message);
    }
    return v;
}

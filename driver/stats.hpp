// Per-process statistics shared by the front-ends, written as JSON for check.py.
#ifndef VERIF_STATS_HPP
#define VERIF_STATS_HPP
#include "abi.h"
#include "case.hpp"

#include <cstdio>
#include <fcntl.h>
#include <map>
#include <string>
#include <sys/mman.h>
#include <unistd.h>
#include <unordered_set>
#include <vector>

namespace verif {

inline std::string jsonEscape(const std::string &s) {
    std::string o;
    for (unsigned char ch : s) {
        switch (ch) {
        case '"': o += "\\\""; break;
        case '\\': o += "\\\\"; break;
        case '\n': o += "\\n"; break;
        case '\r': o += "\\r"; break;
        case '\t': o += "\\t"; break;
        default:
            if (ch < 0x20 || ch >= 0x7f) {
                char b[8];
                std::snprintf(b, sizeof b, "\\u%04x", ch);
                o += b;
            } else
                o += (char)ch;
        }
    }
    return o;
}

// The case about to be executed is kept in a shared mapping so that it survives
// a sanitizer abort of the process (which bypasses shrinking and atexit).
struct Marker {
    char *p = nullptr;
    size_t cap = 1 << 20;
    explicit Marker(const std::string &path) {
        if (path.empty())
            return;
        int fd = ::open(path.c_str(), O_RDWR | O_CREAT | O_TRUNC, 0644);
        if (fd < 0)
            return;
        if (::ftruncate(fd, (off_t)cap) != 0) {
            ::close(fd);
            return;
        }
        void *m = ::mmap(nullptr, cap, PROT_READ | PROT_WRITE, MAP_SHARED, fd, 0);
        ::close(fd);
        if (m != MAP_FAILED)
            p = static_cast<char *>(m);
    }
    void set(const std::string &text) {
        if (!p)
            return;
        size_t n = text.size() < cap - 16 ? text.size() : cap - 16;
        std::memcpy(p + 8, text.data(), n);
        p[8 + n] = 0;
        unsigned long long len = n;
        std::memcpy(p, &len, 8); // length written last: non-zero length = case in flight
    }
    void clear() {
        if (!p)
            return;
        unsigned long long len = 0;
        std::memcpy(p, &len, 8);
    }
};

struct Stats {
    size_t maxSamples;
    unsigned long long evaluations = 0, shrinkEvals = 0, inapplicable = 0, nontrivialTotal = 0;
    std::unordered_set<uint64_t> nontrivialHashes;
    std::map<std::string, unsigned long long> tagCounts;
    std::vector<std::string> samples;
    bool failed = false, finished = false, passed = false;
    std::string firstFailText, lastFailText, lastFailMsg, lastFailKey;
    unsigned long long digestXor = 0;
    unsigned long long workMax = 0, workSum = 0;

    explicit Stats(size_t n) : maxSamples(n) {}

    void record(const std::string &text, const verif_result &r) {
        if (r.verdict == 1) {
            if (!failed) {
                failed = true;
                firstFailText = text;
                ++evaluations;
            } else
                ++shrinkEvals;
            lastFailText = text;
            lastFailMsg = r.message;
            lastFailKey = r.key;
            return;
        }
        if (failed) {
            ++shrinkEvals;
            return;
        }
        ++evaluations;
        if (r.verdict == 2) {
            ++inapplicable;
            return;
        }
        digestXor ^= r.digest * 0x9E3779B97F4A7C15ULL + fnv1a(text);
        workSum += r.work;
        if (r.work > workMax)
            workMax = r.work;
        // tags
        {
            const char *t = r.tags;
            while (*t) {
                while (*t == ' ')
                    ++t;
                const char *e = t;
                while (*e && *e != ' ')
                    ++e;
                if (e > t)
                    ++tagCounts[std::string(t, e - t)];
                t = e;
            }
        }
        if (r.nontrivial) {
            ++nontrivialTotal;
            bool fresh = nontrivialHashes.insert(fnv1a(text)).second;
            if (fresh && samples.size() < maxSamples)
                samples.push_back(text);
        }
    }

    void write(const std::string &path) const {
        std::string j = "{\n";
        auto kv = [&](const std::string &k, unsigned long long v) { j += "  \"" + k + "\": " + std::to_string(v) + ",\n"; };
        kv("evaluations", evaluations);
        kv("shrink_evaluations", shrinkEvals);
        kv("inapplicable", inapplicable);
        kv("nontrivial_total", nontrivialTotal);
        kv("nontrivial_distinct", nontrivialHashes.size());
        kv("work_max", workMax);
        kv("work_sum", workSum);
        j += "  \"digest\": \"" + std::to_string(digestXor) + "\",\n";
        j += std::string("  \"finished\": ") + (finished ? "true" : "false") + ",\n";
        j += std::string("  \"passed\": ") + (passed ? "true" : "false") + ",\n";
        j += std::string("  \"failed\": ") + (failed ? "true" : "false") + ",\n";
        j += "  \"tags\": {";
        bool first = true;
        for (auto &p : tagCounts) {
            j += std::string(first ? "" : ", ") + "\"" + jsonEscape(p.first) + "\": " + std::to_string(p.second);
            first = false;
        }
        j += "},\n  \"samples\": [";
        first = true;
        for (auto &s : samples) {
            j += std::string(first ? "" : ", ") + "\"" + jsonEscape(s) + "\"";
            first = false;
        }
        j += "],\n";
        j += "  \"first_fail_case\": \"" + jsonEscape(firstFailText) + "\",\n";
        j += "  \"fail_case\": \"" + jsonEscape(lastFailText) + "\",\n";
        j += "  \"fail_key\": \"" + jsonEscape(lastFailKey) + "\",\n";
        j += "  \"fail_message\": \"" + jsonEscape(lastFailMsg) + "\"\n}\n";
        FILE *f = std::fopen(path.c_str(), "w");
        if (f) {
            std::fwrite(j.data(), 1, j.size(), f);
            std::fclose(f);
        }
        FILE *h = std::fopen((path + ".hashes").c_str(), "wb");
        if (h) {
            for (uint64_t v : nontrivialHashes)
                std::fwrite(&v, 8, 1, h);
            std::fclose(h);
        }
    }
};

} // namespace verif
#endif

// Executor for C07: rejected calls.  Valid ops build the state (history engine);
//   op bad <entry> <posmask> <badkind> <flags> <a> <b>   one cell of the matrix
//   op badall                                            the complete matrix at the current state
//   op shrink <k>                                        resize to fewer vertices
// Every rejected call must throw the documented exception type and leave the
// exact snapshot of the graph unchanged.
#include "hist.hpp"

#include "BaseGraph/algorithms/paths.hpp"
#include "BaseGraph/algorithms/topology.hpp"

#include <climits>
#include <functional>
#include <unordered_set>

using namespace verif;
using namespace BaseGraph;

namespace {

template <class G>
struct Entry {
    const char *name;
    int nvtx;    // number of vertex-index arguments (1 or 2); 3: vertex set (a = bad member, b = bitmask of valid members)
    int nflags;  // number of boolean flags
    bool isConst;
    std::function<void(G &, unsigned, unsigned, unsigned)> call;
};

template <class G>
std::vector<Entry<G>> entries() {
    typedef GT<G> T;
    typedef typename T::Label L;
    std::vector<Entry<G>> v;
    auto add = [&](const char *n, int nv, int nf, bool c, std::function<void(G &, unsigned, unsigned, unsigned)> f) {
        v.push_back(Entry<G>{n, nv, nf, c, f});
    };
    // common
    add("getOutNeighbours", 1, 0, true, [](G &g, unsigned a, unsigned, unsigned) { (void)g.getOutNeighbours(a); });
    add("hasEdge", 2, 0, true, [](G &g, unsigned a, unsigned b, unsigned) { (void)g.hasEdge(a, b); });
    add("removeEdge", 2, 0, false, [](G &g, unsigned a, unsigned b, unsigned) { g.removeEdge(a, b); });
    add("removeVertexFromEdgeList", 1, 0, false, [](G &g, unsigned a, unsigned, unsigned) { g.removeVertexFromEdgeList(a); });
    if constexpr (T::directed) {
        add("getOutDegree", 1, 0, true, [](G &g, unsigned a, unsigned, unsigned) { (void)g.getOutDegree(a); });
        add("getInDegree", 1, 0, true, [](G &g, unsigned a, unsigned, unsigned) { (void)g.getInDegree(a); });
    } else {
        add("getDegree", 1, 1, true, [](G &g, unsigned a, unsigned, unsigned f) { (void)g.getDegree(a, f & 1); });
    }
    if constexpr (T::fam == 'L') {
        add("addEdge(label)", 2, 1, false, [](G &g, unsigned a, unsigned b, unsigned f) { g.addEdge(a, b, LabelCodec<L>::mk(3), f & 1); });
        add("addEdge", 2, 1, false, [](G &g, unsigned a, unsigned b, unsigned f) { g.addEdge(a, b, (bool)(f & 1)); });
        add("hasEdge(label)", 2, 0, true, [](G &g, unsigned a, unsigned b, unsigned) { (void)g.hasEdge(a, b, LabelCodec<L>::mk(3)); });
        add("getEdgeLabel", 2, 1, true, [](G &g, unsigned a, unsigned b, unsigned f) { (void)g.getEdgeLabel(a, b, f & 1); });
        add("setEdgeLabel", 2, 1, false, [](G &g, unsigned a, unsigned b, unsigned f) { g.setEdgeLabel(a, b, LabelCodec<L>::mk(4), f & 1); });
        add("assertVertexInRange", 1, 0, true, [](G &g, unsigned a, unsigned, unsigned) { g.assertVertexInRange(a); });
        if constexpr (T::directed) {
            add("addReciprocalEdge(label)", 2, 1, false, [](G &g, unsigned a, unsigned b, unsigned f) { g.addReciprocalEdge(a, b, LabelCodec<L>::mk(3), f & 1); });
            add("addReciprocalEdge", 2, 1, false, [](G &g, unsigned a, unsigned b, unsigned f) { g.addReciprocalEdge(a, b, (bool)(f & 1)); });
        } else {
            add("getNeighbours", 1, 0, true, [](G &g, unsigned a, unsigned, unsigned) { (void)g.getNeighbours(a); });
        }
        // subgraph extraction and breadth-first searches (templates over Graph<EdgeLabel>)
        auto mkset = [](const G &g, unsigned bad, unsigned mask) {
            std::unordered_set<VertexIndex> s;
            for (unsigned v = 0; v < g.getSize() && v < 16; ++v)
                if ((mask >> v) & 1)
                    s.insert(v);
            s.insert(bad);
            return s;
        };
        add("getSubgraph", 3, 0, true, [mkset](G &g, unsigned a, unsigned b, unsigned) { (void)algorithms::getSubgraph(g, mkset(g, a, b)); });
        add("getSubgraphWithRemap", 3, 0, true, [mkset](G &g, unsigned a, unsigned b, unsigned) { (void)algorithms::getSubgraphWithRemap(g, mkset(g, a, b)); });
        add("findVertexPredecessors", 1, 0, true, [](G &g, unsigned a, unsigned, unsigned) { (void)algorithms::findVertexPredecessors(g, a); });
        add("findAllVertexPredecessors", 1, 0, true, [](G &g, unsigned a, unsigned, unsigned) { (void)algorithms::findAllVertexPredecessors(g, a); });
        add("findGeodesics", 2, 0, true, [](G &g, unsigned a, unsigned b, unsigned) { (void)algorithms::findGeodesics(g, a, b); });
        add("findAllGeodesics", 2, 0, true, [](G &g, unsigned a, unsigned b, unsigned) { (void)algorithms::findAllGeodesics(g, a, b); });
        add("findGeodesicsFromVertex", 1, 0, true, [](G &g, unsigned a, unsigned, unsigned) { (void)algorithms::findGeodesicsFromVertex(g, a); });
        add("findAllGeodesicsFromVertex", 1, 0, true, [](G &g, unsigned a, unsigned, unsigned) { (void)algorithms::findAllGeodesicsFromVertex(g, a); });
    }
    if constexpr (T::fam == 'M') {
        add("addEdge", 2, 1, false, [](G &g, unsigned a, unsigned b, unsigned f) { g.addEdge(a, b, (bool)(f & 1)); });
        add("addMultiedge", 2, 2, false, [](G &g, unsigned a, unsigned b, unsigned f) { g.addMultiedge(a, b, (f & 2) ? 0u : 2u, f & 1); });
        add("removeMultiedge", 2, 1, false, [](G &g, unsigned a, unsigned b, unsigned f) { g.removeMultiedge(a, b, (f & 1) ? 0u : 2u); });
        add("getEdgeMultiplicity", 2, 0, true, [](G &g, unsigned a, unsigned b, unsigned) { (void)g.getEdgeMultiplicity(a, b); });
        add("setEdgeMultiplicity", 2, 1, false, [](G &g, unsigned a, unsigned b, unsigned f) { g.setEdgeMultiplicity(a, b, (f & 1) ? 0u : 2u); });
        if constexpr (T::directed) {
            add("addReciprocalEdge", 2, 1, false, [](G &g, unsigned a, unsigned b, unsigned f) { g.addReciprocalEdge(a, b, (bool)(f & 1)); });
            add("addReciprocalMultiedge", 2, 2, false, [](G &g, unsigned a, unsigned b, unsigned f) { g.addReciprocalMultiedge(a, b, (f & 2) ? 0u : 2u, f & 1); });
        }
    }
    if constexpr (T::fam == 'W') {
        add("addEdge(weight)", 2, 1, false, [](G &g, unsigned a, unsigned b, unsigned f) { g.addEdge(a, b, 1.5, f & 1); });
        add("getEdgeWeight", 2, 1, true, [](G &g, unsigned a, unsigned b, unsigned f) { (void)g.getEdgeWeight(a, b, f & 1); });
        add("setEdgeWeight", 2, 0, false, [](G &g, unsigned a, unsigned b, unsigned) { g.setEdgeWeight(a, b, 2.5); });
        add("findGeodesicsDijkstra", 1, 0, true, [](G &g, unsigned a, unsigned, unsigned) { (void)algorithms::findGeodesicsDijkstra(g, a); });
        if constexpr (T::directed)
            add("addReciprocalEdge", 2, 1, false, [](G &g, unsigned a, unsigned b, unsigned f) { g.addReciprocalEdge(a, b, (bool)(f & 1)); });
    }
    return v;
}

unsigned badValue(size_t n, unsigned kind) {
    switch (kind & 3) {
    case 0: return (unsigned)n;
    case 1: return (unsigned)n + 1;
    case 2: return (unsigned)n + 7;
    default: return UINT_MAX;
    }
}

template <class G>
struct BadRunner {
    Engine<G> &e;
    std::vector<Entry<G>> tab = entries<G>();
    std::string observer, cellText;
    unsigned long long cells = 0;

    explicit BadRunner(Engine<G> &e) : e(e) {}

    // one cell; returns "" or failure
    std::string cell(const Entry<G> &en, unsigned mask, unsigned badKind, unsigned flags, unsigned va, unsigned vb) {
        size_t n = e.m.n;
        unsigned a, b;
        if (en.nvtx == 3) {
            a = badValue(n, badKind);
            b = vb; // mask of valid members
        } else {
            if (n == 0)
                mask = (1u << en.nvtx) - 1; // no valid index exists
            a = (mask & 1) ? badValue(n, badKind) : (unsigned)(va % n);
            b = (mask & 2) ? badValue(n, badKind ^ (flags >> 4)) : (n ? (unsigned)(vb % n) : 0);
        }
        cellText = std::string(en.name) + "(" + std::to_string(a) + (en.nvtx >= 2 ? "," + std::to_string(b) : "") + ", flags=" + std::to_string(flags & 3) +
                   ") on a graph of size " + std::to_string(n);
        ++cells;
        std::string got;
        try {
            en.call(e.g, a, b, flags);
            got = "returned normally";
        } catch (const std::out_of_range &) {
            got = "";
        } catch (const std::invalid_argument &) {
            got = "threw std::invalid_argument";
        } catch (const std::exception &ex) {
            got = std::string("threw ") + typeid(ex).name();
        } catch (...) {
            got = "threw a non-std exception";
        }
        if (!got.empty()) {
            observer = "exception-type";
            return cellText + ": " + got + ", documented: throws std::out_of_range";
        }
        return "";
    }

    // `copyBefore`: a copy of the graph taken before the rejected call(s); operator== is an observer too
    // (it sees state that no index-taking observer can reach, e.g. a label stored for an invalid pair)
    std::string unchanged(const std::string &before, long double beforeW, const std::string &what, const G *copyBefore = nullptr) {
        std::string r = e.checkNow(observer);
        if (!r.empty())
            return "after rejected call " + what + ": " + r;
        if (copyBefore && (!(e.g == *copyBefore) || !(*copyBefore == e.g) || e.g != *copyBefore)) {
            observer = "state-changed(operator==)";
            return "after rejected call " + what + " the graph no longer compares equal to a copy taken before the call";
        }
        if (e.lastExact != before || e.lastTotalW != beforeW) {
            observer = "state-changed";
            return "rejected call " + what + " changed the observable state\n--- before\n" + before + "--- after\n" + e.lastExact;
        }
        return "";
    }

    std::string one(const Op &op, std::string &entryName) {
        const Entry<G> &en = tab[op.u(0) % tab.size()];
        entryName = en.name;
        unsigned full = en.nvtx == 3 ? 1 : (1u << en.nvtx) - 1;
        unsigned mask = en.nvtx == 3 ? 1 : (unsigned)(op.u(1) % full) + 1;
        std::string before = e.lastExact;
        long double bw = e.lastTotalW;
        G copyBefore(e.g);
        std::string r = cell(en, mask, (unsigned)op.u(2), (unsigned)op.u(3), (unsigned)op.u(4), (unsigned)op.u(5));
        if (!r.empty())
            return r;
        return unchanged(before, bw, cellText, &copyBefore);
    }

    std::string all(std::string &entryName) {
        size_t n = e.m.n;
        for (const Entry<G> &en : tab) {
            entryName = en.name;
            std::string before = e.lastExact;
            long double bw = e.lastTotalW;
            G copyBefore(e.g);
            unsigned full = en.nvtx == 3 ? 1 : (1u << en.nvtx) - 1;
            for (unsigned mask = 1; mask <= full; ++mask)
                for (unsigned bk = 0; bk < 4; ++bk)
                    for (unsigned fl = 0; fl < (1u << en.nflags); ++fl) {
                        // valid positions take every... a representative: first and last vertex
                        for (unsigned rep = 0; rep < (n > 1 && mask != full ? 2u : 1u); ++rep) {
                            unsigned va = rep ? (unsigned)n - 1 : 0, vb = en.nvtx == 3 ? (rep ? 0x5555u : 0xffffu) : va;
                            std::string r = cell(en, mask, bk, fl, va, vb);
                            if (!r.empty())
                                return r;
                        }
                    }
            if (!en.isConst || &en == &tab.back()) {
                std::string r = unchanged(before, bw, std::string("(one of the cells of ") + en.name + ")", &copyBefore);
                if (!r.empty())
                    return r;
            }
        }
        return "";
    }
};

template <class G>
void run(const Case &c, verif_result *out) {
    EngineOptions eo;
    eo.prop = "C07";
    eo.exactWeights = c.get("mode", "exact") != "rounded";
    size_t n0 = std::min<size_t>(12, (size_t)c.geti("n0", 0));
    Engine<G> e(n0, eo);
    BadRunner<G> br(e);
    std::string cls = c.get("class") + ":" + c.get("label", "none");
    std::string observer;
    std::string r = e.start(observer);
    std::string failedOp = "init";
    bool rejectedWithEdges = false, validAfterRejected = false, sawRejected = false;
    size_t stepNo = 0;
    if (r.empty())
        for (const Op &op : c.ops) {
            ++stepNo;
            if (op.kind == "bad") {
                std::string en;
                r = br.one(op, en);
                failedOp = "bad:" + en;
                observer = br.observer;
                e.facts.tag("bad_cell");
                sawRejected = true;
                if (!e.m.e.empty())
                    rejectedWithEdges = true;
            } else if (op.kind == "badall") {
                std::string en;
                r = br.all(en);
                failedOp = "bad:" + en;
                observer = br.observer;
                e.facts.tag("bad_matrix");
                sawRejected = true;
                if (!e.m.e.empty())
                    rejectedWithEdges = true;
            } else if (op.kind == "shrink") {
                failedOp = "resize-smaller";
                if (e.m.n == 0)
                    continue;
                size_t k = 1 + (size_t)(op.u(0) % e.m.n);
                std::string before = e.lastExact;
                long double bw = e.lastTotalW;
                std::string got;
                try {
                    e.g.resize(e.m.n - k);
                    got = "returned normally";
                } catch (const std::invalid_argument &) {
                } catch (const std::exception &ex) {
                    got = std::string("threw ") + typeid(ex).name();
                }
                if (!got.empty()) {
                    observer = "exception-type";
                    r = "resize(" + std::to_string(e.m.n - k) + ") on a graph of size " + std::to_string(e.m.n) + " " + got + ", documented: throws std::invalid_argument";
                } else {
                    r = br.unchanged(before, bw, "resize to fewer vertices");
                    observer = br.observer;
                }
                e.facts.tag("shrink_rejected");
                sawRejected = true;
                if (!e.m.e.empty())
                    rejectedWithEdges = true;
            } else {
                r = e.step(op, observer);
                failedOp = op.kind;
                if (sawRejected && !e.facts.tags.count("skipped_op"))
                    validAfterRejected = true;
                if (e.facts.tags.count("setl_absent_rejected")) {
                    sawRejected = true;
                }
            }
            if (!r.empty())
                break;
        }
    out->work = br.cells;
    if (!r.empty()) {
        std::string msg = "property C07 class " + cls + " step " + std::to_string(stepNo) + " (" + failedOp + "): " + r + "\ncalls so far: " + e.trace;
        fillResult(out, 1, false, e.digest, cls + "|" + failedOp + "|" + observer, joinTags(e.facts), msg);
        out->work = br.cells;
        return;
    }
    fillResult(out, 0, rejectedWithEdges && validAfterRejected, e.digest, "", joinTags(e.facts) + " cells=" + std::to_string(br.cells > 0), "");
    out->work = br.cells;
}

} // namespace

#ifndef BAD_DISPATCH
#define DEF(name, ...) void bad_run_##name(const Case &c, verif_result *out) { run<__VA_ARGS__>(c, out); }
#if BAD_GROUP == 0
DEF(DS_none, DirectedGraph)
#elif BAD_GROUP == 1
DEF(US_none, UndirectedGraph)
#elif BAD_GROUP == 2
DEF(DM_none, DirectedMultigraph) DEF(UM_none, UndirectedMultigraph)
#elif BAD_GROUP == 3
DEF(DW_none, DirectedWeightedGraph) DEF(UW_none, UndirectedWeightedGraph)
#elif BAD_GROUP == 4
DEF(DL_int, LabeledDirectedGraph<int>)
#elif BAD_GROUP == 5
DEF(UL_int, LabeledUndirectedGraph<int>)
#elif BAD_GROUP == 6
DEF(DL_string, LabeledDirectedGraph<std::string>)
#elif BAD_GROUP == 7
DEF(UL_string, LabeledUndirectedGraph<std::string>)
#else
#error "BAD_GROUP must be 0..7"
#endif
#else
#define BAD_PARTS(X) X(DS_none) X(US_none) X(DM_none) X(UM_none) X(DW_none) X(UW_none) X(DL_int) X(UL_int) X(DL_string) X(UL_string)
#define X(n) void bad_run_##n(const Case &c, verif_result *out);
BAD_PARTS(X)
#undef X
extern "C" const char *verif_executor_name(void) { return "bad (C07)"; }
extern "C" int verif_run_case(const char *text, size_t len, verif_result *out) {
    std::memset(out, 0, sizeof *out);
    Case c;
    std::string err;
    try {
        if (!parseCase(text, len, c, err)) {
            fillResult(out, 2, false, 0, "", "", "parse error: " + err);
            return 2;
        }
        std::string name = c.get("class", "DS") + "_" + c.get("label", "none");
        bool ok = false;
#define X(n)                                                                                                           \
    if (!ok && name == #n) {                                                                                           \
        bad_run_##n(c, out);                                                                                           \
        ok = true;                                                                                                     \
    }
        BAD_PARTS(X)
#undef X
        if (!ok) {
            fillResult(out, 2, false, 0, "", "", "unknown class/label " + name);
            return 2;
        }
    } catch (const std::exception &ex) {
        fillResult(out, 1, false, 0, "harness|uncaught|" + std::string(typeid(ex).name()), "", std::string("uncaught exception: ") + ex.what());
    } catch (...) {
        fillResult(out, 1, false, 0, "harness|uncaught|unknown", "", "uncaught non-std exception");
    }
    return out->verdict;
}
#endif

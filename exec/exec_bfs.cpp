// Executor for C11 (breadth-first geodesics against an independent reference)
// and the breadth-first half of C19 (work bounds on an instrumented graph type).
#include "families.hpp"
#include "gcase.hpp"
#include "forked.hpp"
#include "registry.hpp"

#include "BaseGraph/algorithms/paths.hpp"

#include <queue>

using namespace verif;
using namespace BaseGraph;

namespace {

struct WorkExceeded {
    size_t scans;
};

// Instrumented graph types handed to the (template) searches: a copy of the graph whose getOutNeighbours counts the
// neighbourhood scans.  They derive from the graph class, so whatever part of its public interface a search uses is there.
template <class L>
struct CountingDirected : LabeledDirectedGraph<L> {
    mutable size_t scans = 0;
    size_t cap = (size_t)-1;
    explicit CountingDirected(const LabeledDirectedGraph<L> &g) : LabeledDirectedGraph<L>(g) {}
    const Successors &getOutNeighbours(VertexIndex v) const {
        if (++scans > cap)
            throw WorkExceeded{scans};
        return LabeledDirectedGraph<L>::getOutNeighbours(v);
    }
};
template <class L>
struct CountingUndirected : LabeledUndirectedGraph<L> {
    mutable size_t scans = 0;
    size_t cap = (size_t)-1;
    explicit CountingUndirected(const LabeledUndirectedGraph<L> &g) : LabeledUndirectedGraph<L>(g) {}
    const Successors &getOutNeighbours(VertexIndex v) const {
        if (++scans > cap)
            throw WorkExceeded{scans};
        return LabeledUndirectedGraph<L>::getOutNeighbours(v);
    }
};
template <class L>
CountingDirected<L> counting(const LabeledDirectedGraph<L> &g) {
    return CountingDirected<L>(g);
}
template <class L>
CountingUndirected<L> counting(const LabeledUndirectedGraph<L> &g) {
    return CountingUndirected<L>(g);
}

const size_t UNREACH = (size_t)-1;

struct Ref {
    size_t n;
    std::vector<std::vector<unsigned>> out, in; // successor / predecessor lists (no repeats)
    std::vector<std::vector<size_t>> dist;      // all pairs
};

Ref makeRef(const Model &m) {
    Ref r;
    r.n = m.n;
    r.out.assign(m.n, {});
    r.in.assign(m.n, {});
    for (auto &p : m.e) {
        unsigned i = p.first.first, j = p.first.second;
        r.out[i].push_back(j);
        r.in[j].push_back(i);
        if (!m.directed && i != j) {
            r.out[j].push_back(i);
            r.in[i].push_back(j);
        }
    }
    r.dist.assign(m.n, std::vector<size_t>(m.n, UNREACH));
    for (unsigned s = 0; s < m.n; ++s) {
        auto &d = r.dist[s];
        d[s] = 0;
        // repeated relaxation (Bellman-Ford style on unit weights): independent of any queue discipline
        bool changed = true;
        while (changed) {
            changed = false;
            for (unsigned u = 0; u < m.n; ++u)
                if (d[u] != UNREACH)
                    for (unsigned v : r.out[u])
                        if (d[v] == UNREACH || d[v] > d[u] + 1) {
                            d[v] = d[u] + 1;
                            changed = true;
                        }
        }
    }
    return r;
}

typedef std::vector<unsigned> VPath;

std::string showPath(const VPath &p) { return showVec(p); }

void enumeratePaths(const Ref &r, unsigned s, unsigned t, VPath &suffix, std::vector<VPath> &out, size_t limit) {
    if (out.size() > limit)
        return;
    suffix.push_back(t);
    if (t == s) {
        out.emplace_back(suffix.rbegin(), suffix.rend());
    } else {
        for (unsigned u : r.in[t])
            if (r.dist[s][u] != UNREACH && r.dist[s][u] + 1 == r.dist[s][t])
                enumeratePaths(r, s, u, suffix, out, limit);
    }
    suffix.pop_back();
}

// saturating count of shortest s->t paths
std::vector<double> countPaths(const Ref &r, unsigned s) {
    std::vector<unsigned> order;
    for (unsigned v = 0; v < r.n; ++v)
        if (r.dist[s][v] != UNREACH)
            order.push_back(v);
    std::sort(order.begin(), order.end(), [&](unsigned a, unsigned b) { return r.dist[s][a] < r.dist[s][b]; });
    std::vector<double> cnt(r.n, 0);
    cnt[s] = 1;
    for (unsigned v : order)
        if (v != s)
            for (unsigned u : r.in[v])
                if (r.dist[s][u] != UNREACH && r.dist[s][u] + 1 == r.dist[s][v])
                    cnt[v] += cnt[u];
    return cnt;
}

template <class G>
std::string validWalk(const Model &m, const algorithms::Path &p, unsigned s, unsigned t, size_t hops) {
    VPath v(p.begin(), p.end());
    if (v.empty() || v.front() != s || v.back() != t)
        return "does not lead from " + std::to_string(s) + " to " + std::to_string(t) + ": " + showPath(v);
    if (v.size() != hops + 1)
        return "has " + std::to_string(v.size() - 1) + " hops, the distance is " + std::to_string(hops) + ": " + showPath(v);
    for (size_t k = 0; k + 1 < v.size(); ++k)
        if (v[k] >= m.n || v[k + 1] >= m.n || !m.has(v[k], v[k + 1]))
            return "uses (" + std::to_string(v[k]) + "," + std::to_string(v[k + 1]) + ") which is not an edge: " + showPath(v);
    return "";
}

uint64_t g_digest = 0;
template <class C>
void mix(const C &c) {
    for (auto v : c)
        g_digest = (g_digest ^ (uint64_t)v) * 1099511628211ULL + 7;
    g_digest = g_digest * 31 + 1;
}

template <class G>
std::string checkSource(const G &g, const Model &m, const Ref &r, unsigned s, std::string &observer, StepFacts &facts) {
    size_t n = m.n;
    const size_t VMAX = algorithms::BASEGRAPH_VERTEX_MAX;
    auto P = algorithms::findVertexPredecessors(g, s);
    auto A = algorithms::findAllVertexPredecessors(g, s);
    if (P.first.size() != n || P.second.size() != n || A.first.size() != n || A.second.size() != n) {
        observer = "result-size";
        return "a predecessor search returned vectors of the wrong length";
    }
    std::string S = "source " + std::to_string(s) + ": ";
    mix(P.first);
    mix(P.second);
    mix(A.first);
    for (auto &l : A.second)
        mix(l);
    for (unsigned v = 0; v < n; ++v) {
        size_t d = r.dist[s][v];
        size_t expect = d == UNREACH ? VMAX : d;
        if (P.first[v] != expect) {
            observer = "findVertexPredecessors-distance";
            return S + "findVertexPredecessors distance of " + std::to_string(v) + " is " + std::to_string(P.first[v]) + " expected " + std::to_string(expect);
        }
        if (A.first[v] != expect) {
            observer = "findAllVertexPredecessors-distance";
            return S + "findAllVertexPredecessors distance of " + std::to_string(v) + " is " + std::to_string(A.first[v]) + " expected " + std::to_string(expect);
        }
        std::vector<unsigned> expPreds;
        if (d != UNREACH && v != s)
            for (unsigned u : r.in[v])
                if (r.dist[s][u] != UNREACH && r.dist[s][u] + 1 == d)
                    expPreds.push_back(u);
        std::sort(expPreds.begin(), expPreds.end());
        if (d != UNREACH && v != s) {
            unsigned p = P.second[v];
            if (p >= n || !m.has(p, v) || r.dist[s][p] == UNREACH || r.dist[s][p] + 1 != d) {
                observer = "findVertexPredecessors-predecessor";
                return S + "predecessor of " + std::to_string(v) + " is " + std::to_string(p) + ", not an in-neighbour one hop closer";
            }
        }
        std::vector<unsigned> got(A.second[v].begin(), A.second[v].end());
        std::sort(got.begin(), got.end());
        if (got != expPreds) {
            observer = "findAllVertexPredecessors-predecessors";
            return S + "all-predecessor list of " + std::to_string(v) + " is " + showVec(std::vector<unsigned>(A.second[v].begin(), A.second[v].end())) + " expected (any order) " + showVec(expPreds);
        }
        if (d == UNREACH)
            facts.tag("unreachable");
        if (expPreds.size() >= 2)
            facts.tag("several_predecessors");
    }
    for (unsigned u : r.in[s])
        if (r.dist[s][u] != UNREACH) {
            facts.tag("cycle_through_source");
            break;
        }
    auto cnt = countPaths(r, s);
    auto fromV = algorithms::findGeodesicsFromVertex(g, s);
    auto allFromV = algorithms::findAllGeodesicsFromVertex(g, s);
    if (fromV.size() != n || allFromV.size() != n) {
        observer = "result-size";
        return S + "a ...FromVertex search returned a vector of the wrong length";
    }
    for (unsigned t = 0; t < n; ++t) {
        size_t d = r.dist[s][t];
        auto one = algorithms::findGeodesics(g, s, t);
        mix(one);
        mix(fromV[t]);
        for (auto &pth : allFromV[t])
            mix(pth);
        const algorithms::Path *singles[2] = {&one, &fromV[t]};
        const char *names[2] = {"findGeodesics", "findGeodesicsFromVertex"};
        for (int k = 0; k < 2; ++k) {
            const auto &p = *singles[k];
            std::string bad;
            if (d == UNREACH) {
                if (!p.empty())
                    bad = "is not empty although " + std::to_string(t) + " is unreachable";
            } else
                bad = validWalk<G>(m, p, s, t, d);
            if (!bad.empty()) {
                observer = names[k];
                return S + names[k] + " to " + std::to_string(t) + " " + bad;
            }
        }
        if (cnt[t] >= 2)
            facts.tag("several_shortest_paths");
        if (cnt[t] > 20000) {
            facts.tag("path_set_too_large_skipped");
            continue;
        }
        std::vector<VPath> expect;
        if (d != UNREACH) {
            VPath suffix;
            enumeratePaths(r, s, t, suffix, expect, 30000);
        }
        std::sort(expect.begin(), expect.end());
        auto all = algorithms::findAllGeodesics(g, s, t);
        const algorithms::MultiplePaths *multis[2] = {&all, &allFromV[t]};
        const char *mnames[2] = {"findAllGeodesics", "findAllGeodesicsFromVertex"};
        for (int k = 0; k < 2; ++k) {
            std::vector<VPath> got;
            for (auto &p : *multis[k])
                got.emplace_back(p.begin(), p.end());
            std::sort(got.begin(), got.end());
            if (got != expect) {
                observer = mnames[k];
                std::string gs, es;
                for (auto &p : got)
                    gs += showPath(p);
                for (auto &p : expect)
                    es += showPath(p);
                if (gs.size() > 600)
                    gs = gs.substr(0, 600) + "...";
                if (es.size() > 600)
                    es = es.substr(0, 600) + "...";
                return S + mnames[k] + " to " + std::to_string(t) + " returned {" + gs + "} expected the set {" + es + "}";
            }
        }
    }
    return "";
}

// C19: scans of the two predecessor searches on the instrumented type
template <class G>
std::string checkWork(const G &g, const Model &m, const Ref &r, unsigned s, std::string &observer, StepFacts &facts, unsigned long long &maxScans, double &maxPaths) {
    size_t V = m.n, E = 0;
    for (unsigned v = 0; v < V; ++v)
        E += g.getOutNeighbours(v).size();
    auto cnt = countPaths(r, s);
    for (double c : cnt) {
        if (c > maxPaths)
            maxPaths = c;
        if (c > (double)(V + E))
            facts.tag("more_shortest_paths_than_V_plus_E");
    }
    // the bounds hold whatever was searched before in this thread: the pair searches (which may stop as soon as
    // the destination is settled) come first, on the instrumented type (per-thread scratch state is per instantiation), with a generous budget
    if (V) {
        unsigned t = (unsigned)((s * 7 + 3) % V);
        bool few = cnt[t] <= 1000; // findAllGeodesics lists every shortest path to t: only where there are few
        auto cg = counting(g);
        cg.cap = 100 * (V + E + 1); // a budget far above the bounds: a search that runs away here is reported, not waited for
        try {
            (void)algorithms::findGeodesics(cg, s, t);
            if (few)
                (void)algorithms::findAllGeodesics(cg, s, t);
        } catch (const WorkExceeded &w) {
            observer = "pair-search-scans";
            return "a pair search from " + std::to_string(s) + " to " + std::to_string(t) + " scanned more than 100*(V+E+1)=" + std::to_string(cg.cap) + " neighbourhoods (V=" + std::to_string(V) +
                   ", E=" + std::to_string(E) + ")";
        }
        facts.tag("pair_searches_before");
    }
    {
        auto cg = counting(g);
        cg.cap = V;
        try {
            auto P = algorithms::findVertexPredecessors(cg, s);
            for (unsigned v = 0; v < V; ++v)
                if (P.first[v] != (r.dist[s][v] == UNREACH ? algorithms::BASEGRAPH_VERTEX_MAX : r.dist[s][v])) {
                    observer = "findVertexPredecessors-distance";
                    return "wrong distance on the instrumented graph";
                }
        } catch (const WorkExceeded &w) {
            observer = "findVertexPredecessors-scans";
            return "findVertexPredecessors from " + std::to_string(s) + " scanned more than V=" + std::to_string(V) + " neighbourhoods (V=" + std::to_string(V) + ", E=" + std::to_string(E) + ")";
        }
        maxScans = std::max<unsigned long long>(maxScans, cg.scans);
    }
    {
        auto cg = counting(g);
        cg.cap = V + E;
        try {
            auto A = algorithms::findAllVertexPredecessors(cg, s);
            for (unsigned v = 0; v < V; ++v)
                if (A.first[v] != (r.dist[s][v] == UNREACH ? algorithms::BASEGRAPH_VERTEX_MAX : r.dist[s][v])) {
                    observer = "findAllVertexPredecessors-distance";
                    return "wrong distance on the instrumented graph";
                }
        } catch (const WorkExceeded &w) {
            observer = "findAllVertexPredecessors-scans";
            return "findAllVertexPredecessors from " + std::to_string(s) + " scanned more than V+E=" + std::to_string(V + E) + " neighbourhoods (V=" + std::to_string(V) + ", E=" + std::to_string(E) +
                   "); the largest number of shortest paths to one vertex is " + std::to_string(maxPaths);
        }
        maxScans = std::max<unsigned long long>(maxScans, cg.scans);
    }
    return "";
}

// Searches keep no memory of earlier ones: the same search gives the same (already validated) answer after d-1 other
// searches that never reach its source.  d is a word-size boundary (2^8, 2^16) of a call counter.
template <class G>
std::string checkAfterManyCalls(const G &g, const Model &m, const Ref &r, long long d, bool work, std::string &observer, StepFacts &facts) {
    size_t V = m.n, E = 0;
    for (unsigned v = 0; v < V; ++v)
        E += g.getOutNeighbours(v).size();
    for (unsigned s = 0; s < V; ++s) {
        // a source that reaches something, and another vertex whose searches never reach that source
        size_t reached = 0;
        for (unsigned v = 0; v < V; ++v)
            reached += v != s && r.dist[s][v] != UNREACH;
        if (!reached)
            continue;
        long long other = -1;
        for (unsigned u = 0; u < V && other < 0; ++u)
            if (u != s && r.dist[u][s] == UNREACH)
                other = u;
        if (other < 0)
            continue;
        auto P0 = algorithms::findVertexPredecessors(g, s);
        auto A0 = algorithms::findAllVertexPredecessors(g, s);
        auto co = counting(g);
        for (long long i = 1; i < d; ++i) {
            (void)algorithms::findVertexPredecessors(g, (VertexIndex)other);
            (void)algorithms::findAllVertexPredecessors(g, (VertexIndex)other);
            if (work) {
                (void)algorithms::findVertexPredecessors(co, (VertexIndex)other);
                (void)algorithms::findAllVertexPredecessors(co, (VertexIndex)other);
            }
        }
        auto P1 = algorithms::findVertexPredecessors(g, s);
        auto A1 = algorithms::findAllVertexPredecessors(g, s);
        facts.tag("many_calls_between_" + std::to_string(d));
        if (P0.first != P1.first || P0.second != P1.second || A0.first != A1.first || A0.second != A1.second) {
            observer = "after-many-calls";
            return "a predecessor search from " + std::to_string(s) + " answers differently after " + std::to_string(d - 1) + " searches from " + std::to_string(other) + " (which never reach " +
                   std::to_string(s) + ")";
        }
        if (work) {
            auto c1 = counting(g), c2 = counting(g);
            c1.cap = V;
            c2.cap = V + E;
            try {
                (void)algorithms::findVertexPredecessors(c1, s);
                (void)algorithms::findAllVertexPredecessors(c2, s);
            } catch (const WorkExceeded &w) {
                observer = "scans-after-many-calls";
                return "a predecessor search from " + std::to_string(s) + " exceeds its scan bound after " + std::to_string(d - 1) + " earlier searches";
            }
        }
        return "";
    }
    return "";
}

// `fresh 1`: the case runs in a forked child of a process that never searched, on graphs of three classes built from the same
// edge list (the class of the case, the one of the other directedness, the one with / without labels) in a generated order: the
// searches of one class must not depend on what another class searched before in the same thread.
template <class X>
std::string freshOne(const Case &c, const char *what, std::string &observer, StepFacts &facts) {
    typedef GT<X> T;
    GSpec s = parseGSpec(c, T::directed);
    X g(0);
    Model m;
    buildGraph(s, "int", g, m);
    Ref ref = makeRef(m);
    long long src = c.geti("source", -1);
    for (unsigned sv = 0; sv < m.n; ++sv) {
        if (src >= 0 && sv != (unsigned)(src % (long long)m.n))
            continue;
        std::string r = checkSource(g, m, ref, sv, observer, facts);
        if (!r.empty())
            return std::string("on the ") + what + ": " + r;
    }
    return "";
}
template <class G>
struct Siblings;
template <class L>
struct Siblings<LabeledDirectedGraph<L>> {
    typedef LabeledUndirectedGraph<L> OtherDir;
    typedef LabeledDirectedGraph<typename std::conditional<std::is_same<L, NoLabel>::value, int, NoLabel>::type> OtherLabel;
};
template <class L>
struct Siblings<LabeledUndirectedGraph<L>> {
    typedef LabeledDirectedGraph<L> OtherDir;
    typedef LabeledUndirectedGraph<typename std::conditional<std::is_same<L, NoLabel>::value, int, NoLabel>::type> OtherLabel;
};
template <class G>
void runFresh(const Case &c, verif_result *out) {
    std::string cls = c.get("class") + ":" + c.get("label", "none");
    StepFacts facts;
    std::string observer, r;
    static const int perms[6][3] = {{0, 1, 2}, {0, 2, 1}, {1, 0, 2}, {1, 2, 0}, {2, 0, 1}, {2, 1, 0}};
    const int *order = perms[c.geti("fresh_order", 0) % 6];
    g_digest = 1469598103934665603ULL;
    try {
        for (int k = 0; k < 3 && r.empty(); ++k) {
            if (order[k] == 0)
                r = freshOne<G>(c, "class of the case", observer, facts);
            else if (order[k] == 1)
                r = freshOne<typename Siblings<G>::OtherDir>(c, "class of the other directedness", observer, facts);
            else
                r = freshOne<typename Siblings<G>::OtherLabel>(c, "class with the other label type", observer, facts);
            if (!r.empty())
                r = "searched as number " + std::to_string(k + 1) + " of three classes in a fresh process, " + r;
        }
    } catch (const std::exception &ex) {
        observer = "exception";
        r = std::string("unexpected exception ") + typeid(ex).name() + ": " + ex.what();
    }
    facts.tag("fresh_process_three_classes");
    if (!r.empty()) {
        fillResult(out, 1, false, 0, cls + "|fresh|" + observer, joinTags(facts), "property C11 class " + cls + " (fresh): " + r);
        return;
    }
    fillResult(out, 0, facts.tags.count("several_shortest_paths") || facts.tags.count("cycle_through_source") || facts.tags.count("unreachable"), g_digest, "", joinTags(facts), "");
}

template <class G>
void runInner(const Case &c, verif_result *out);

template <class G>
void run(const Case &c, verif_result *out) {
    if (c.geti("fresh", 0) == 0) {
        runInner<G>(c, out);
        return;
    }
    std::string how;
    if (!runForked([&](verif_result *o) { runFresh<G>(c, o); }, out, how)) {
        std::string cls = c.get("class") + ":" + c.get("label", "none");
        fillResult(out, 1, false, 0, cls + "|fresh|child-died", "", "property C11 class " + cls + ": the process running the case ended abnormally (" + how + ")");
    }
}

template <class G>
void runInner(const Case &c, verif_result *out) {
    typedef GT<G> T;
    std::string prop = c.get("prop", "C11");
    std::string cls = c.get("class") + ":" + c.get("label", "none");
    G g(0);
    Model m;
    StepFacts facts;
    std::string observer, r, where = "build";
    unsigned long long maxScans = 0;
    double maxPaths = 0;
    g_digest = 1469598103934665603ULL;
    try {
        std::string fam = c.get("family", "");
        GSpec s;
        if (!fam.empty()) {
            std::vector<FamEdge> fe;
            s.n = familyEdges(fam, c.geti("fa", 2), c.geti("fb", 4), fe);
            long long x = 0;
            for (auto &e : fe)
                s.edges.push_back(GEdge{e.i, e.j, ++x});
            facts.tag("family_" + fam);
        } else {
            s = parseGSpec(c, T::directed);
        }
        buildGraph(s, "int", g, m);
        // two features one after the other: the searched object is a copy assigned over another graph (1), a rebuild
        // through the container constructor from the edges and labels the graph holds (2), or the target of a move (3)
        if (long long via = c.geti("via", 0)) {
            typedef typename T::Label L;
            if (via == 1) {
                G h(g);
                g = G(0);
                g = h;
            } else if (via == 2) {
                if constexpr (T::nolabel) {
                    std::vector<Edge> v;
                    for (auto &p : m.e)
                        v.emplace_back(p.first.first, p.first.second);
                    g = G(v);
                } else {
                    std::vector<LabeledEdge<L>> v;
                    for (auto &p : m.e)
                        v.emplace_back(p.first.first, p.first.second, LabelCodec<L>::mk((int)p.second.k));
                    g = G(v);
                }
                g.resize(m.n);
            } else {
                G h(std::move(g));
                g = G(1);
                g = std::move(h);
            }
            facts.tag("searched_object_via_" + std::string(via == 1 ? "copy" : via == 2 ? "container_constructor" : "move"));
        }
        if (m.n <= 12)
            r = verifyBuilt(g, m, observer);
        Ref ref = makeRef(m);
        if (r.empty()) {
            where = prop == "C19" ? "work" : "search";
            std::vector<unsigned> sources;
            long long src = c.geti("source", -1);
            if (src >= 0 && m.n)
                sources.push_back((unsigned)(src % (long long)m.n));
            else
                for (unsigned v = 0; v < m.n; ++v)
                    sources.push_back(v);
            for (unsigned sv : sources) {
                r = prop == "C19" ? checkWork(g, m, ref, sv, observer, facts, maxScans, maxPaths) : checkSource(g, m, ref, sv, observer, facts);
                if (!r.empty())
                    break;
            }
            if (r.empty() && c.geti("wrap_calls", 0) > 0)
                r = checkAfterManyCalls(g, m, ref, c.geti("wrap_calls", 0), prop == "C19", observer, facts);
        }
    } catch (const WorkExceeded &w) {
        observer = "scans";
        r = "work bound exceeded";
    } catch (const std::exception &ex) {
        observer = "exception";
        r = std::string("unexpected exception ") + typeid(ex).name() + ": " + ex.what();
    }
    out->work = maxScans;
    if (!r.empty()) {
        fillResult(out, 1, false, 0, cls + "|" + where + "|" + observer, joinTags(facts), "property " + prop + " class " + cls + " (" + where + "): " + r);
        out->work = maxScans;
        return;
    }
    bool nt = prop == "C19" ? facts.tags.count("more_shortest_paths_than_V_plus_E") != 0
                            : (facts.tags.count("several_shortest_paths") || facts.tags.count("cycle_through_source") || facts.tags.count("unreachable"));
    fillResult(out, 0, nt, g_digest, "", joinTags(facts), "");
    out->work = maxScans;
}

} // namespace

#if BF_GROUP == 0
VERIF_REGISTER(DS_none, DirectedGraph) VERIF_REGISTER(US_none, UndirectedGraph)
#elif BF_GROUP == 1
VERIF_REGISTER(DL_int, LabeledDirectedGraph<int>) VERIF_REGISTER(UL_int, LabeledUndirectedGraph<int>)
#else
#error "BF_GROUP must be 0..1"
#endif

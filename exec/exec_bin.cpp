// Executor for C14 (binary edge lists: round trip, byte layout, hand-made files,
// unopenable files, swapBytes) and the crash-point half of C15 (every cut offset
// of a valid binary file).
#include "abi.h"
#include "case.hpp"
#include "registry.hpp"

#include <string>

// Binary IO performed during static initialisation, by an object that is defined BEFORE fileio.hpp is
// included and is therefore initialised before that header's own namespace-scope objects.  "The same
// bytes in any run" includes a run that writes a file from the constructor of a global object.
std::string verifEarlyIOProblem();
#if BN_GROUP == 1
namespace {
struct EarlyIO {
    std::string problem;
    EarlyIO();
};
EarlyIO earlyIO;
} // namespace
#endif

#include "BaseGraph/fileio.hpp"

#include <algorithm>
#include <cstdint>
#include <cstring>
#include <fstream>
#include <map>
#include <set>
#include <typeinfo>
#include <unistd.h>

using namespace verif;
using namespace BaseGraph;

namespace {

typedef std::pair<unsigned, unsigned> UPair;

std::string scratchFile(const char *suffix) {
    const char *d = std::getenv("VERIF_SCRATCH");
    std::string dir = (d && *d) ? d : "/dev/shm";
    return dir + "/bin_" + std::to_string((long)getpid()) + suffix;
}
struct FileGuard {
    std::string p;
    ~FileGuard() { ::unlink(p.c_str()); }
};

std::string readAll(const std::string &p) {
    std::ifstream f(p, std::ios::binary);
    return std::string((std::istreambuf_iterator<char>(f)), std::istreambuf_iterator<char>());
}
void writeAll(const std::string &p, const std::string &bytes) {
    std::ofstream f(p, std::ios::binary | std::ios::trunc);
    f.write(bytes.data(), (std::streamsize)bytes.size());
}

void le32(std::string &o, uint32_t v) {
    for (int k = 0; k < 4; ++k)
        o += (char)((v >> (8 * k)) & 0xff);
}

template <class L>
struct Val {
    static constexpr size_t size = sizeof(L);
    static L mk(long long x) {
        uint64_t h = (uint64_t)(x + 1) * 0x9E3779B97F4A7C15ULL + 0x0102030405060708ULL;
        if constexpr (std::is_floating_point<L>::value) {
            return (L)((double)(long long)(h >> 42) / 64.0 - 20000.0);
        } else {
            L v;
            std::memcpy(&v, &h, sizeof(L));
            return v;
        }
    }
    // little-endian bytes computed with shifts (not memcpy of the object)
    static void le(std::string &o, const L &v) {
        if constexpr (sizeof(L) == 1) {
            uint8_t b;
            std::memcpy(&b, &v, 1);
            o += (char)b;
        } else if constexpr (sizeof(L) == 2) {
            uint16_t b;
            std::memcpy(&b, &v, 2);
            o += (char)(b & 0xff);
            o += (char)(b >> 8);
        } else if constexpr (sizeof(L) == 4) {
            uint32_t b;
            std::memcpy(&b, &v, 4);
            le32(o, b);
        } else {
            uint64_t b;
            std::memcpy(&b, &v, 8);
            le32(o, (uint32_t)(b & 0xffffffffu));
            le32(o, (uint32_t)(b >> 32));
        }
    }
};
template <>
struct Val<NoLabel> {
    static constexpr size_t size = 0;
    static NoLabel mk(long long) { return NoLabel(); }
    static void le(std::string &, const NoLabel &) {}
};

template <class G>
struct BT;
template <class L>
struct BT<LabeledDirectedGraph<L>> {
    typedef L Label;
    static constexpr bool directed = true;
    static void write(const LabeledDirectedGraph<L> &g, const std::string &p) { io::writeBinaryEdgeList<LabeledDirectedGraph, L>(g, p); }
    static LabeledDirectedGraph<L> load(const std::string &p) { return io::loadBinaryEdgeList<LabeledDirectedGraph, L>(p); }
};
template <class L>
struct BT<LabeledUndirectedGraph<L>> {
    typedef L Label;
    static constexpr bool directed = false;
    static void write(const LabeledUndirectedGraph<L> &g, const std::string &p) { io::writeBinaryEdgeList<LabeledUndirectedGraph, L>(g, p); }
    static LabeledUndirectedGraph<L> load(const std::string &p) { return io::loadBinaryEdgeList<LabeledUndirectedGraph, L>(p); }
};

template <class L>
struct BModel {
    bool directed;
    size_t n = 0;
    std::vector<std::pair<UPair, L>> order; // insertion order, pair as given
    std::map<UPair, L> e;                   // canonical key
    UPair key(unsigned i, unsigned j) const { return (!directed && i > j) ? UPair(j, i) : UPair(i, j); }
};

template <class G>
void buildFromCase(const Case &c, G &g, BModel<typename BT<G>::Label> &m) {
    typedef typename BT<G>::Label L;
    m.directed = BT<G>::directed;
    long long dense = c.geti("dense", 0);
    if (c.geti("dense_auto", 0))
        dense = 60 + c.geti("n", 0) % 21;
    size_t n = (size_t)std::min<long long>(dense > 0 ? 200 : 40, std::max<long long>(0, c.geti("n", 0)));
    m.n = n;
    g = G(n);
    // `dense d`: every vertex i joined to i+1 .. i+d (modulo n): files of thousands of records (buffers of a writer or loader fill up)
    for (long long k = 1; k <= dense && n > 0; ++k)
        for (unsigned i = 0; i < n; ++i) {
            unsigned j = (unsigned)((i + k) % n);
            UPair key = m.key(i, j);
            if (m.e.count(key))
                continue;
            L v = Val<L>::mk((long long)(i * 31 + k));
            m.e[key] = v;
            m.order.emplace_back(UPair(i, j), v);
            g.addEdge(i, j, v);
        }
    for (const Op &op : c.ops)
        if (op.kind == "e" && n > 0) {
            unsigned i = (unsigned)(op.u(0) % n), j = (unsigned)(op.u(1) % n);
            UPair k = m.key(i, j);
            if (m.e.count(k))
                continue;
            L v = Val<L>::mk(op.i(2));
            m.e[k] = v;
            m.order.emplace_back(UPair(i, j), v);
            g.addEdge(i, j, v);
        }
}

// all-pairs comparison of a loaded graph with the model
template <class G>
std::string matchesModel(const G &h, const BModel<typename BT<G>::Label> &m, size_t n, const std::map<UPair, typename BT<G>::Label> &edges, std::string &observer) {
    typedef typename BT<G>::Label L;
    if (h.getSize() != n) {
        observer = "size";
        return "graph has " + std::to_string(h.getSize()) + " vertices expected " + std::to_string(n);
    }
    if (h.getEdgeNumber() != edges.size()) {
        observer = "edge-count";
        return "graph has " + std::to_string(h.getEdgeNumber()) + " edges expected " + std::to_string(edges.size());
    }
    for (unsigned i = 0; i < n; ++i) {
        // via neighbour lists, so that an invented or repeated edge is seen
        std::multiset<unsigned> got(h.getOutNeighbours(i).begin(), h.getOutNeighbours(i).end()), want;
        for (unsigned j = 0; j < n; ++j) {
            auto it = edges.find(m.key(i, j));
            if (it != edges.end())
                want.insert(j);
        }
        if (got != want) {
            observer = "edges";
            return "neighbour list of " + std::to_string(i) + " differs from the expected records";
        }
        for (unsigned j : want) {
            if constexpr (!std::is_same<L, NoLabel>::value) {
                L a = h.getEdgeLabel(i, j), b = edges.find(m.key(i, j))->second;
                if (std::memcmp(&a, &b, sizeof(L)) != 0) {
                    observer = "labels";
                    return "label of (" + std::to_string(i) + "," + std::to_string(j) + ") differs from the record";
                }
            }
        }
    }
    return "";
}

template <class L>
size_t usedSize(const std::map<UPair, L> &e) {
    size_t s = 0;
    for (auto &p : e)
        s = std::max<size_t>(s, std::max(p.first.first, p.first.second) + 1);
    return s;
}

// The file must be exactly one record LE32(src) LE32(dst) LE(label) per edge of the model.
template <class L>
std::string layoutCheck(const std::string &bytes, const BModel<L> &m, std::string &observer) {
    size_t rec = 8 + Val<L>::size;
    if (bytes.size() != rec * m.e.size()) {
        observer = "file-length";
        return "file has " + std::to_string(bytes.size()) + " bytes expected edges x record size = " + std::to_string(m.e.size()) + " x " + std::to_string(rec);
    }
    std::set<UPair> seen;
    for (size_t k = 0; k < m.e.size(); ++k) {
        const unsigned char *p = reinterpret_cast<const unsigned char *>(bytes.data()) + k * rec;
        uint32_t a = p[0] | (p[1] << 8) | (p[2] << 16) | ((uint32_t)p[3] << 24), b = p[4] | (p[5] << 8) | (p[6] << 16) | ((uint32_t)p[7] << 24);
        auto it = (a < (1u << 30) && b < (1u << 30)) ? m.e.find(m.key(a, b)) : m.e.end();
        if (it == m.e.end()) {
            observer = "file-bytes";
            return "record " + std::to_string(k) + " reads as (" + std::to_string(a) + "," + std::to_string(b) + ") in little-endian, which is not an edge of the graph";
        }
        if (!seen.insert(it->first).second) {
            observer = "file-bytes";
            return "edge (" + std::to_string(a) + "," + std::to_string(b) + ") is written twice";
        }
        std::string lab;
        Val<L>::le(lab, it->second);
        if (std::string(bytes.data() + k * rec + 8, Val<L>::size) != lab) {
            observer = "file-bytes";
            return "label bytes of record " + std::to_string(k) + " are not the little-endian bytes of the label";
        }
    }
    return "";
}

template <class G>
std::string roundTrip(const Case &c, std::string &observer, std::set<std::string> &tags) {
    typedef typename BT<G>::Label L;
    G g(0);
    BModel<L> m;
    buildFromCase(c, g, m);
    FileGuard f1{scratchFile(".bin")}, f2{scratchFile(".hand")};
    // the output path may already hold a file (a writer replaces it): 1 = junk of a length that is no multiple of the
    // record size, 2 = one well-formed record naming vertices 5 and 6, 3 = a longer file than the one to be written
    if (long long pf = c.geti("prefill", 0)) {
        std::string old;
        if (pf == 1)
            old = std::string(37, '\xAB');
        else {
            for (size_t k = 0; k < (pf == 2 ? 1 : m.e.size() + 3); ++k) {
                le32(old, 5);
                le32(old, 6);
                Val<L>::le(old, L());
            }
        }
        writeAll(f1.p, old);
        tags.insert("output_path_holds_a_file");
    }
    BT<G>::write(g, f1.p);
    std::string bytes = readAll(f1.p);
    size_t rec = 8 + Val<L>::size;
    // (2) layout: nothing but one record per edge (any record order; either orientation of an undirected pair)
    {
        std::string why = layoutCheck<L>(bytes, m, observer);
        if (!why.empty())
            return why;
    }
    // (1) round trip
    {
        G h = BT<G>::load(f1.p);
        size_t used = usedSize(m.e);
        if (h.getSize() != used) {
            observer = "roundtrip-size";
            return "reloaded graph has " + std::to_string(h.getSize()) + " vertices expected 1+largest used index = " + std::to_string(used);
        }
        h.resize(m.n);
        if (!(h == g) || !(g == h) || h != g) {
            observer = "roundtrip-equality";
            return "after resize the reloaded graph does not equal the original";
        }
        std::string r = matchesModel(h, m, m.n, m.e, observer);
        if (!r.empty())
            return "reloaded: " + r;
    }
    // (3) hand-made file, records in a generated order and orientation
    {
        long long ord = c.geti("order", 1);
        std::vector<std::pair<long long, std::pair<UPair, L>>> recs;
        size_t idx = 0;
        for (auto &p : m.order) {
            UPair pr = p.first;
            if (!m.directed && ((idx + ord) % 2))
                std::swap(pr.first, pr.second);
            recs.push_back({(long long)((idx * (2 * ord + 1) * 7 + ord * 13) % 17), {pr, p.second}});
            ++idx;
        }
        std::stable_sort(recs.begin(), recs.end(), [](const auto &a, const auto &b) { return a.first < b.first; });
        std::string hand;
        for (auto &r : recs) {
            le32(hand, r.second.first.first);
            le32(hand, r.second.first.second);
            Val<L>::le(hand, r.second.second);
        }
        writeAll(f2.p, hand);
        G h = BT<G>::load(f2.p);
        std::string r = matchesModel(h, m, usedSize(m.e), m.e, observer);
        if (!r.empty())
            return "hand-made file: " + r;
        // same bytes load identically a second time
        G h2 = BT<G>::load(f2.p);
        if (!(h2 == h)) {
            observer = "load-repeatable";
            return "loading the same bytes twice gives different graphs";
        }
    }
    bool loop = false;
    for (auto &p : m.e)
        loop |= p.first.first == p.first.second;
    if (Val<L>::size >= 2 && m.e.size() >= 2 && loop)
        tags.insert("multibyte_two_edges_loop");
    if (m.e.size() >= 2)
        tags.insert("two_or_more_edges");
    return "";
}

// C14: indices whose little-endian bytes are all "interesting" (0xFF / 0x00 / mixed in every position)
template <class G>
std::string bigIndex(const Case &c, std::string &observer, std::set<std::string> &tags) {
    typedef typename BT<G>::Label L;
    static const unsigned table[] = {0, 1, 254, 255, 256, 257, 511, 512, 767, 1023, 4095, 4096, 65279, 65280, 65281, 65534, 65535, 65536, 65537, 65791, 66047, 70000};
    const size_t T = sizeof(table) / sizeof(table[0]);
    BModel<L> m;
    m.directed = BT<G>::directed;
    std::vector<std::pair<UPair, L>> recs;
    size_t n = 0;
    for (const Op &op : c.ops)
        if (op.kind == "e") {
            unsigned i = table[op.u(0) % T], j = table[op.u(1) % T];
            UPair k = m.key(i, j);
            if (m.e.count(k))
                continue;
            L v = Val<L>::mk(op.i(2));
            m.e[k] = v;
            recs.emplace_back(UPair(i, j), v);
            n = std::max<size_t>(n, std::max(i, j) + 1);
        }
    m.n = n;
    G g(n);
    for (auto &r : recs)
        g.addEdge(r.first.first, r.first.second, r.second);
    FileGuard f1{scratchFile(".big")};
    BT<G>::write(g, f1.p);
    std::string bytes = readAll(f1.p);
    {
        std::string why = layoutCheck<L>(bytes, m, observer);
        if (!why.empty())
            return why + " (indices up to " + std::to_string(n) + ")";
    }
    G h = BT<G>::load(f1.p);
    if (h.getSize() != n || h.getEdgeNumber() != m.e.size()) {
        observer = "roundtrip-size";
        return "reloaded graph has " + std::to_string(h.getSize()) + " vertices and " + std::to_string(h.getEdgeNumber()) + " edges, expected " + std::to_string(n) + " and " +
               std::to_string(m.e.size());
    }
    std::set<unsigned> involved;
    for (auto &r : recs) {
        involved.insert(r.first.first);
        involved.insert(r.first.second);
    }
    for (unsigned v : involved) {
        std::multiset<unsigned> a(g.getOutNeighbours(v).begin(), g.getOutNeighbours(v).end()), b(h.getOutNeighbours(v).begin(), h.getOutNeighbours(v).end());
        if (a != b) {
            observer = "roundtrip-edges";
            return "neighbours of vertex " + std::to_string(v) + " differ after the round trip";
        }
        if constexpr (!std::is_same<L, NoLabel>::value)
            for (unsigned w : a) {
                L x = g.getEdgeLabel(v, w), y = h.getEdgeLabel(v, w);
                if (std::memcmp(&x, &y, sizeof(L)) != 0) {
                    observer = "roundtrip-labels";
                    return "label of (" + std::to_string(v) + "," + std::to_string(w) + ") differs after the round trip";
                }
            }
    }
    if (!(h == g)) {
        observer = "roundtrip-equality";
        return "the reloaded graph does not equal the original";
    }
    if (recs.size() >= 2)
        tags.insert("big_indices_two_edges");
    return "";
}

// C15: every cut offset of a valid file
template <class G>
std::string cuts(const Case &c, std::string &observer, std::set<std::string> &tags, unsigned long long &work) {
    typedef typename BT<G>::Label L;
    G g(0);
    BModel<L> m;
    buildFromCase(c, g, m);
    // the file as the writer lays it out (insertion order of the model is a valid record order)
    std::string bytes;
    std::vector<std::pair<UPair, L>> recs;
    for (auto &p : m.order) {
        le32(bytes, p.first.first);
        le32(bytes, p.first.second);
        Val<L>::le(bytes, p.second);
        recs.push_back(p);
    }
    size_t rec = 8 + Val<L>::size;
    FileGuard f{scratchFile(".cut")};
    for (size_t cut = 0; cut <= bytes.size(); ++cut) {
        writeAll(f.p, bytes.substr(0, cut));
        ++work;
        size_t complete = cut / rec;
        std::map<UPair, L> expect;
        for (size_t k = 0; k < complete; ++k)
            expect[m.key(recs[k].first.first, recs[k].first.second)] = recs[k].second;
        try {
            G h = BT<G>::load(f.p);
            std::string r = matchesModel(h, m, usedSize(expect), expect, observer);
            if (!r.empty()) {
                observer = "cut-" + observer;
                return "file of " + std::to_string(bytes.size()) + " bytes (" + std::to_string(recs.size()) + " records of " + std::to_string(rec) + ") cut at byte " + std::to_string(cut) +
                       " (inside record " + std::to_string(complete) + ", field byte " + std::to_string(cut % rec) + "): loader returned something else than the " + std::to_string(complete) +
                       " complete records: " + r;
            }
        } catch (const std::exception &) {
            tags.insert("cut_rejected_by_exception");
        }
        if (cut % rec != 0)
            tags.insert("cut_inside_record");
    }
    // the same file with one record spliced in at every record boundary whose first, second or both indices are 0xFFFFFFFF
    // (index+1 wraps to 0: no allocation is attempted): the loader returns or throws std::exception, without a memory error
    for (size_t at = 0; at <= recs.size(); ++at)
        for (int which = 1; which <= 3; ++which) {
            std::string extra;
            le32(extra, (which & 1) ? 0xFFFFFFFFu : 0u);
            le32(extra, (which & 2) ? 0xFFFFFFFFu : 0u);
            extra.append(Val<L>::size, '\1');
            writeAll(f.p, bytes.substr(0, at * rec) + extra + bytes.substr(at * rec));
            ++work;
            try {
                G h = BT<G>::load(f.p);
                (void)h.getSize();
                tags.insert("wrap_index_accepted");
            } catch (const std::exception &) {
                tags.insert("wrap_index_rejected_by_exception");
            }
        }
    return "";
}

// C15: arbitrary bytes offered as a binary edge list
std::string hexDecodeLocal(const std::string &h) {
    std::string o;
    if (h == "-")
        return o;
    auto v = [](char c) { return (c >= '0' && c <= '9') ? c - '0' : (c >= 'a' && c <= 'f') ? c - 'a' + 10 : (c >= 'A' && c <= 'F') ? c - 'A' + 10 : 0; };
    for (size_t i = 0; i + 1 < h.size(); i += 2)
        o += (char)(v(h[i]) * 16 + v(h[i + 1]));
    return o;
}

template <class G>
std::string rawBin(const Case &c, std::string &observer, std::set<std::string> &tags, int &verdict) {
    typedef typename BT<G>::Label L;
    std::string bytes = hexDecodeLocal(c.get("file", "-"));
    size_t rec = 8 + Val<L>::size;
    size_t complete = bytes.size() / rec;
    bool directed = BT<G>::directed;
    // expected: the complete records in file order (repeated pairs appear once per record, last label wins)
    size_t n = 0;
    std::vector<std::multiset<unsigned>> nb;
    std::map<UPair, L> lab;
    auto u32 = [&](size_t off) {
        return (uint32_t)(unsigned char)bytes[off] | ((uint32_t)(unsigned char)bytes[off + 1] << 8) | ((uint32_t)(unsigned char)bytes[off + 2] << 16) |
               ((uint32_t)(unsigned char)bytes[off + 3] << 24);
    };
    bool wrapIndex = false;
    for (size_t k = 0; k < complete; ++k) {
        uint32_t a = u32(k * rec), b = u32(k * rec + 4);
        // 0xFFFFFFFF: index+1 wraps to 0, nothing huge is allocated: in the domain, but no graph can hold such a vertex
        if ((a >= 65536 && a != 0xFFFFFFFFu) || (b >= 65536 && b != 0xFFFFFFFFu)) {
            verdict = 2;
            return "index outside the allocatable domain";
        }
        if (a == 0xFFFFFFFFu || b == 0xFFFFFFFFu) {
            wrapIndex = true;
            continue;
        }
        n = std::max<size_t>(n, std::max(a, b) + 1);
    }
    if (wrapIndex) {
        FileGuard fw{scratchFile(".rawbin")};
        writeAll(fw.p, bytes);
        tags.insert("index_0xFFFFFFFF");
        try {
            G h = BT<G>::load(fw.p);
            (void)h.getSize();
            tags.insert("loader_returned");
        } catch (const std::exception &) {
            tags.insert("loader_threw_std_exception");
        } catch (...) {
            observer = "non-std-exception";
            return "the loader threw something not derived from std::exception";
        }
        return "";
    }
    nb.resize(n);
    for (size_t k = 0; k < complete; ++k) {
        uint32_t a = u32(k * rec), b = u32(k * rec + 4);
        L v{};
        if constexpr (!std::is_same<L, NoLabel>::value)
            std::memcpy(&v, bytes.data() + k * rec + 8, sizeof(L)); // little-endian host (checked by C14)
        nb[a].insert(b);
        if (!directed && a != b)
            nb[b].insert(a);
        lab[(!directed && a > b) ? UPair(b, a) : UPair(a, b)] = v;
    }
    FileGuard f{scratchFile(".rawbin")};
    writeAll(f.p, bytes);
    if (bytes.size() % rec)
        tags.insert("partial_last_record");
    try {
        G h = BT<G>::load(f.p);
        if (h.getSize() != n) {
            observer = "raw-size";
            return "loader returned " + std::to_string(h.getSize()) + " vertices, the complete records need " + std::to_string(n);
        }
        for (unsigned i = 0; i < n; ++i) {
            std::multiset<unsigned> got(h.getOutNeighbours(i).begin(), h.getOutNeighbours(i).end());
            if (got != nb[i]) {
                observer = "raw-edges";
                return "neighbour list of " + std::to_string(i) + " is not what the complete records say";
            }
            if constexpr (!std::is_same<L, NoLabel>::value)
                for (unsigned j : nb[i]) {
                    L a = h.getEdgeLabel(i, j), b = lab[(!directed && i > j) ? UPair(j, i) : UPair(i, j)];
                    if (std::memcmp(&a, &b, sizeof(L)) != 0) {
                        observer = "raw-labels";
                        return "label of (" + std::to_string(i) + "," + std::to_string(j) + ") is not the record's";
                    }
                }
        }
        tags.insert("loader_returned");
    } catch (const std::exception &) {
        tags.insert("loader_threw_std_exception");
    } catch (...) {
        observer = "non-std-exception";
        return "the loader threw something not derived from std::exception";
    }
    return "";
}

template <class G>
std::string badPath(std::string &observer) {
    typedef typename BT<G>::Label L;
    std::string p = scratchFile("_no_such_dir") + "/sub/file.bin";
    G g(2);
    g.addEdge(0, 1, Val<L>::mk(1));
    auto expectRuntime = [&](const char *name, auto f) -> std::string {
        try {
            f();
        } catch (const std::runtime_error &) {
            return "";
        } catch (const std::exception &ex) {
            observer = std::string("unopenable-") + name;
            return std::string(name) + " on an unopenable path threw " + typeid(ex).name() + ", documented: std::runtime_error";
        }
        observer = std::string("unopenable-") + name;
        return std::string(name) + " on an unopenable path returned normally, documented: std::runtime_error";
    };
    std::string r;
    r = expectRuntime("writeBinaryEdgeList", [&] { BT<G>::write(g, p); });
    if (r.empty())
        r = expectRuntime("loadBinaryEdgeList", [&] { (void)BT<G>::load(p); });
    if constexpr (BT<G>::directed) {
        if (r.empty())
            r = expectRuntime("writeTextEdgeList", [&] { io::writeTextEdgeList<LabeledDirectedGraph, L>(g, p, [](const L &) { return std::string("x"); }); });
        if (r.empty())
            r = expectRuntime("loadTextEdgeList", [&] { (void)io::loadTextEdgeList<LabeledDirectedGraph, L>(p); });
        if (r.empty())
            r = expectRuntime("loadTextVertexLabeledEdgeList", [&] { (void)io::loadTextVertexLabeledEdgeList<LabeledDirectedGraph, L>(p); });
    } else {
        if (r.empty())
            r = expectRuntime("writeTextEdgeList", [&] { io::writeTextEdgeList<LabeledUndirectedGraph, L>(g, p, [](const L &) { return std::string("x"); }); });
        if (r.empty())
            r = expectRuntime("loadTextEdgeList", [&] { (void)io::loadTextEdgeList<LabeledUndirectedGraph, L>(p); });
        if (r.empty())
            r = expectRuntime("loadTextVertexLabeledEdgeList", [&] { (void)io::loadTextVertexLabeledEdgeList<LabeledUndirectedGraph, L>(p); });
    }
    return r;
}

template <class L>
std::string swapCheck(long long x, std::string &observer) {
    if constexpr (std::is_same<L, NoLabel>::value)
        return "";
    else {
        L v = Val<L>::mk(x), w = v;
        io::swapBytes(w);
        unsigned char a[sizeof(L)], b[sizeof(L)];
        std::memcpy(a, &v, sizeof(L));
        std::memcpy(b, &w, sizeof(L));
        for (size_t k = 0; k < sizeof(L); ++k)
            if (a[k] != b[sizeof(L) - 1 - k]) {
                observer = "swapBytes-reversal";
                return "swapBytes does not reverse the object representation";
            }
        io::swapBytes(w);
        std::memcpy(b, &w, sizeof(L));
        if (std::memcmp(a, b, sizeof(L)) != 0) {
            observer = "swapBytes-involution";
            return "swapBytes twice is not the identity";
        }
        return "";
    }
}

template <class G>
void run(const Case &c, verif_result *out) {
    typedef typename BT<G>::Label L;
    std::string prop = c.get("prop", "C14");
    std::string cls = c.get("class") + ":" + c.get("label", "none");
    std::string mode = c.get("mode", "roundtrip");
    std::set<std::string> tags;
    std::string observer, r;
    unsigned long long work = 0;
    try {
        if (mode == "cuts")
            r = cuts<G>(c, observer, tags, work);
        else if (mode == "bigindex")
            r = bigIndex<G>(c, observer, tags);
        else if (mode == "rawbin") {
            int verdict = 1;
            r = rawBin<G>(c, observer, tags, verdict);
            if (verdict == 2) {
                out->verdict = 2;
                std::snprintf(out->message, sizeof out->message, "%s", r.c_str());
                return;
            }
        }
        else if (mode == "badpath") {
            r = badPath<G>(observer);
            tags.insert("unopenable_paths");
        } else {
            r = verifEarlyIOProblem();
            if (!r.empty())
                observer = "static-initialisation-io";
            tags.insert("static_init_io_checked");
            if (r.empty())
                r = roundTrip<G>(c, observer, tags);
            if (r.empty())
                r = swapCheck<L>(c.geti("n", 0) + (long long)c.ops.size(), observer);
        }
    } catch (const std::exception &ex) {
        observer = "exception";
        r = std::string("unexpected exception ") + typeid(ex).name() + ": " + ex.what();
    }
    std::string tg;
    for (auto &t : tags)
        tg += t + " ";
    tg += "mode_" + mode;
    out->verdict = r.empty() ? 0 : 1;
    out->nontrivial = r.empty() && (tags.count("multibyte_two_edges_loop") || tags.count("cut_inside_record") || tags.count("partial_last_record") || tags.count("big_indices_two_edges"));
    out->work = work;
    std::snprintf(out->tags, sizeof out->tags, "%s", tg.c_str());
    if (!r.empty()) {
        std::snprintf(out->key, sizeof out->key, "%s|%s|%s", cls.c_str(), mode.c_str(), observer.c_str());
        std::snprintf(out->message, sizeof out->message, "property %s class %s (%s): %s", prop.c_str(), cls.c_str(), mode.c_str(), r.c_str());
    }
}

} // namespace

#if BN_GROUP == 1
namespace {
EarlyIO::EarlyIO() {
    try {
        FileGuard f{scratchFile(".early")};
        LabeledDirectedGraph<int32_t> g(3);
        g.addEdge(1, 2, 0x01020304);
        io::writeBinaryEdgeList<LabeledDirectedGraph, int32_t>(g, f.p);
        std::string bytes = readAll(f.p);
        const unsigned char want[12] = {1, 0, 0, 0, 2, 0, 0, 0, 4, 3, 2, 1};
        if (bytes != std::string(reinterpret_cast<const char *>(want), 12)) {
            problem = "a file written during static initialisation does not hold the little-endian record of (1,2,0x01020304)";
            return;
        }
        LabeledDirectedGraph<int32_t> h = io::loadBinaryEdgeList<LabeledDirectedGraph, int32_t>(f.p);
        if (!(h == g))
            problem = "a file written and read back during static initialisation does not give the same graph";
    } catch (const std::exception &ex) {
        problem = std::string("binary IO during static initialisation threw: ") + ex.what();
    }
}
} // namespace
std::string verifEarlyIOProblem() { return earlyIO.problem; }
#endif

#define REG2(name, T) VERIF_REGISTER(DL_##name, LabeledDirectedGraph<T>) VERIF_REGISTER(UL_##name, LabeledUndirectedGraph<T>)
#if BN_GROUP == 0
VERIF_REGISTER(DS_none, DirectedGraph) VERIF_REGISTER(US_none, UndirectedGraph) REG2(i8, int8_t) REG2(u8, uint8_t)
#elif BN_GROUP == 1
REG2(i16, int16_t) REG2(u16, uint16_t) REG2(i32, int32_t)
#elif BN_GROUP == 2
REG2(u32, uint32_t) REG2(i64, int64_t) REG2(u64, uint64_t)
#elif BN_GROUP == 3
REG2(f32, float) REG2(f64, double)
#else
#error "BN_GROUP must be 0..3"
#endif

// Executor for C18: concurrent read-only use of one graph object.  Built with
// ThreadSanitizer.  T threads run every const entry point in a generated order,
// R rounds, behind one barrier and otherwise unsynchronised; every per-call
// digest must equal the single-threaded baseline, and TSan must stay silent.
#include "gcase.hpp"
#include "forked.hpp"
#include "registry.hpp"

#include "BaseGraph/algorithms/paths.hpp"
#include "BaseGraph/algorithms/topology.hpp"
#include "BaseGraph/fileio.hpp"

#include <atomic>
#include <fstream>
#include <functional>
#include <sstream>
#include <thread>
#include <sys/wait.h>
#include <unistd.h>
#include <unordered_set>

using namespace verif;
using namespace BaseGraph;

namespace {

// "distinct files": the names of the threads' files differ in the stem (style 0), only in the extension (style 1: shard.0, shard.1, ...)
// or only in their last character before a common extension (style 2)
int g_nameStyle = 0;
std::string scratchFile(int tid, const char *suffix) {
    const char *d = std::getenv("VERIF_SCRATCH");
    std::string dir = (d && *d) ? d : "/dev/shm";
    std::string base = dir + "/conc_" + std::to_string((long)getpid());
    if (g_nameStyle == 1)
        return base + (suffix[1] == 't' ? "_text." : "_bin.") + std::to_string(tid);
    if (g_nameStyle == 2)
        return base + "_shard" + std::to_string(tid) + suffix;
    return base + "_" + std::to_string(tid) + suffix;
}
std::string readAll(const std::string &p) {
    std::ifstream f(p, std::ios::binary);
    return std::string((std::istreambuf_iterator<char>(f)), std::istreambuf_iterator<char>());
}

template <class G>
uint64_t obsDigest(const G &g) {
    Obs o;
    observe(g, o);
    char b[64];
    std::snprintf(b, sizeof b, "%La", o.totalW);
    return fnv1a(obsText(o, true, GT<G>::directed) + b);
}

template <class C>
void mixSeq(uint64_t &h, const C &c) {
    for (auto v : c)
        h = (h ^ (uint64_t)v) * 1099511628211ULL + 3;
    h = h * 31 + 1;
}

template <class G>
struct Entries {
    typedef GT<G> T;
    typedef typename T::Label L;
    typedef std::function<uint64_t(const G &, int)> Fn;
    std::vector<std::pair<std::string, Fn>> list;
    G other; // a copy made before the threads start (for ==)

    explicit Entries(const G &g) : other(g) {
        const G *oth = &other;
        list.emplace_back("observers", [](const G &g, int) { return obsDigest(g); });
        list.emplace_back("equality", [oth](const G &g, int) { return (uint64_t)((g == g) * 4 + (g == *oth) * 2 + (g != *oth)); });
        list.emplace_back("copy", [](const G &g, int) {
            G c(g);
            G d(0);
            d = g;
            return obsDigest(c) * 31 + obsDigest(d);
        });
        list.emplace_back("operator<<", [](const G &g, int) {
            std::ostringstream os;
            os << g;
            return fnv1a(os.str());
        });
        if constexpr (T::fam != 'L') {
            list.emplace_back("asLabeledGraph", [](const G &g, int) { return obsDigest(g.asLabeledGraph()); });
        }
        if constexpr (T::fam == 'W') {
            list.emplace_back("dijkstra", [](const G &g, int) {
                uint64_t h = 7;
                for (unsigned s = 0; s < g.getSize(); ++s) {
                    auto r = algorithms::findGeodesicsDijkstra(g, s);
                    for (double d : r.first) {
                        uint64_t bits;
                        std::memcpy(&bits, &d, 8);
                        h = (h ^ bits) * 1099511628211ULL + 3;
                    }
                    mixSeq(h, r.second);
                }
                return h;
            });
        }
        if constexpr (T::fam == 'L') {
            if constexpr (T::directed) {
                list.emplace_back("getReversedGraph", [](const G &g, int) { return obsDigest(g.getReversedGraph()); });
                list.emplace_back("undirected-from-directed", [](const G &g, int) { return obsDigest(LabeledUndirectedGraph<L>(g)); });
            } else {
                list.emplace_back("getDirectedGraph", [](const G &g, int) { return obsDigest(g.getDirectedGraph()); });
            }
            list.emplace_back("subgraphs", [](const G &g, int) {
                std::unordered_set<VertexIndex> s;
                if (g.getSize() >= 24) { // large shared graphs: four vertices in five (more than 48 members from 66 vertices on)
                    for (unsigned v = 0; v < g.getSize(); ++v)
                        if (v % 5)
                            s.insert(v);
                } else
                    for (unsigned v = 0; v < g.getSize(); v += 2)
                        s.insert(v);
                if (g.getSize() > 1)
                    s.insert(1);
                uint64_t h = obsDigest(algorithms::getSubgraph(g, s));
                auto pr = algorithms::getSubgraphWithRemap(g, s);
                // compared up to the bijection: size, edge count, and the multiset of mapped-back edges
                std::vector<std::pair<unsigned, unsigned>> back;
                std::vector<unsigned> inv(pr.first.getSize(), 0);
                for (auto &kv : pr.second)
                    if (kv.second < inv.size())
                        inv[kv.second] = kv.first;
                for (auto e : pr.first.edges()) {
                    unsigned a = inv[e.first], b = inv[e.second];
                    if (!T::directed && a > b)
                        std::swap(a, b);
                    back.emplace_back(a, b);
                }
                std::sort(back.begin(), back.end());
                for (auto &p : back)
                    h = (h ^ (p.first * 131u + p.second)) * 1099511628211ULL + 5;
                return h * 31 + pr.first.getSize();
            });
            list.emplace_back("searches", [](const G &g, int) {
                uint64_t h = 11;
                for (unsigned s = 0; s < g.getSize(); ++s) {
                    auto P = algorithms::findVertexPredecessors(g, s);
                    auto A = algorithms::findAllVertexPredecessors(g, s);
                    mixSeq(h, P.first);
                    mixSeq(h, P.second);
                    mixSeq(h, A.first);
                    for (auto &l : A.second)
                        mixSeq(h, l);
                    for (auto &p : algorithms::findGeodesicsFromVertex(g, s))
                        mixSeq(h, p);
                    for (auto &ps : algorithms::findAllGeodesicsFromVertex(g, s))
                        for (auto &p : ps)
                            mixSeq(h, p);
                    for (unsigned t = 0; t < g.getSize(); ++t) {
                        mixSeq(h, algorithms::findGeodesics(g, s, t));
                        for (auto &p : algorithms::findAllGeodesics(g, s, t))
                            mixSeq(h, p);
                        if (P.first[t] != algorithms::BASEGRAPH_VERTEX_MAX) {
                            mixSeq(h, algorithms::findPathToVertexFromPredecessors(g, s, t, P));
                            mixSeq(h, algorithms::findPathToVertexFromPredecessors(g, t, P));
                            for (auto &p : algorithms::findMultiplePathsToVertexFromPredecessors(g, s, t, A))
                                mixSeq(h, p);
                            for (auto &p : algorithms::findMultiplePathsToVertexFromPredecessors(g, t, A))
                                mixSeq(h, p);
                        }
                    }
                }
                return h;
            });
            list.emplace_back("writers", [](const G &g, int tid) {
                std::string tp = scratchFile(tid, ".txt"), bp = scratchFile(tid, ".bin");
                uint64_t h = 13;
                if constexpr (T::directed)
                    io::writeTextEdgeList<LabeledDirectedGraph, L>(g, tp, [](const L &l) { return std::to_string(labelIndex<L>(l)); });
                else
                    io::writeTextEdgeList<LabeledUndirectedGraph, L>(g, tp, [](const L &l) { return std::to_string(labelIndex<L>(l)); });
                h = fnv1a(readAll(tp), h);
                if constexpr (std::is_same<L, int>::value || T::nolabel) {
                    if constexpr (T::directed)
                        io::writeBinaryEdgeList<LabeledDirectedGraph, L>(g, bp);
                    else
                        io::writeBinaryEdgeList<LabeledUndirectedGraph, L>(g, bp);
                    h = fnv1a(readAll(bp), h);
                    ::unlink(bp.c_str());
                }
                ::unlink(tp.c_str());
                return h;
            });
        }
    }
};

template <class G>
void runInner(const Case &c, verif_result *out) {
    typedef GT<G> T;
    GSpec s = parseGSpec(c, T::directed);
    std::string cls = c.get("class") + ":" + c.get("label", "none");
    int threads = (int)std::min<long long>(8, std::max<long long>(2, c.geti("threads", 4)));
    int rounds = (int)std::min<long long>(4, std::max<long long>(1, c.geti("rounds", 2)));
    long long okey = c.geti("orderkey", 1);
    g_nameStyle = (int)(okey % 3);
    G g(0);
    Model m;
    std::string observer, r;
    StepFacts facts;
    try {
        buildGraph(s, "int", g, m);
        // a long update history on the shared object before the readers start (a lazily rebuilt summary would be rebuilt by the
        // first reader, i.e. concurrently): `churn` times the value of one edge is changed and restored
        long long churn = std::min<long long>(70000, c.geti("churn", 0));
        if (churn > 0 && !m.e.empty()) {
            unsigned ci = m.e.begin()->first.first, cj = m.e.begin()->first.second;
            const MVal cv = m.e.begin()->second;
            for (long long t = 0; t < churn; ++t) {
                if constexpr (T::fam == 'W') {
                    g.setEdgeWeight(ci, cj, cv.w + 1);
                    g.setEdgeWeight(ci, cj, cv.w);
                } else if constexpr (T::fam == 'M') {
                    g.setEdgeMultiplicity(ci, cj, (unsigned)cv.k + 1);
                    g.setEdgeMultiplicity(ci, cj, (unsigned)cv.k);
                } else if constexpr (T::nolabel) {
                    g.removeEdge(ci, cj);
                    g.addEdge(ci, cj);
                } else {
                    g.setEdgeLabel(ci, cj, LabelCodec<typename T::Label>::mk((int)((cv.k + 1) % LABEL_K)));
                    g.setEdgeLabel(ci, cj, LabelCodec<typename T::Label>::mk((int)cv.k));
                }
            }
            facts.tag(churn >= 16384 ? "long_update_history" : "update_history");
        }
        // no observer is called before the threads start: a cache filled by a first single-threaded call would hide its race
        {
            Entries<G> en(g);
            size_t E = en.list.size();
            // The concurrent phase runs FIRST, in a process that has not yet called any entry point (see run()):
            // a lazily initialised static or cache is then first touched by unsynchronised threads.  The
            // single-threaded baseline is computed afterwards.
            std::vector<std::vector<uint64_t>> seen(threads, std::vector<uint64_t>(E * rounds, 0));
            std::atomic<int> ready{0};
            std::atomic<bool> go{false};
            std::vector<std::string> errors(threads);
            std::vector<std::thread> th;
            const G &cg = g;
            for (int t = 0; t < threads; ++t)
                th.emplace_back([&, t]() {
                    // per-thread order of the entry points
                    std::vector<size_t> order(E);
                    for (size_t k = 0; k < E; ++k)
                        order[k] = k;
                    std::stable_sort(order.begin(), order.end(), [&](size_t a, size_t b) {
                        return ((a + 1) * (2 * t + 1) * (okey % 7 + 3)) % 11 < ((b + 1) * (2 * t + 1) * (okey % 7 + 3)) % 11;
                    });
                    ready.fetch_add(1);
                    while (!go.load(std::memory_order_acquire))
                        std::this_thread::yield();
                    try {
                        for (int rd = 0; rd < rounds; ++rd)
                            for (size_t k : order)
                                seen[t][rd * E + k] = en.list[k].second(cg, t);
                    } catch (const std::exception &ex) {
                        errors[t] = "thread " + std::to_string(t) + ": unexpected exception " + typeid(ex).name() + ": " + ex.what();
                    }
                });
            while (ready.load() < threads)
                std::this_thread::yield();
            go.store(true, std::memory_order_release);
            for (auto &x : th)
                x.join();
            std::vector<uint64_t> base(E);
            for (size_t k = 0; k < E; ++k)
                base[k] = en.list[k].second(g, threads + 1);
            for (int t = 0; t < threads; ++t)
                for (int rd = 0; rd < rounds; ++rd)
                    for (size_t k = 0; k < E; ++k)
                        if (seen[t][rd * E + k] != base[k] && errors[t].empty())
                            errors[t] = "thread " + std::to_string(t) + " round " + std::to_string(rd) + ": " + en.list[k].first + " differs from the single-threaded result";
            for (auto &e : errors)
                if (!e.empty() && r.empty()) {
                    observer = "baseline-mismatch";
                    r = e;
                }
            // the shared object itself must be unchanged
            if (r.empty() && en.list[0].second(g, threads + 1) != base[0]) {
                observer = "graph-changed";
                r = "the shared graph shows other observations after the concurrent reads";
            }
            if (r.empty())
                r = verifyBuilt(g, m, observer);
            facts.tag("threads_" + std::to_string(threads));
            out->work = (unsigned long long)threads * rounds * E;
        }
    } catch (const std::exception &ex) {
        observer = "exception";
        r = std::string("unexpected exception ") + typeid(ex).name() + ": " + ex.what();
    }
    unsigned long long work = out->work;
    if (!r.empty()) {
        fillResult(out, 1, false, 0, cls + "|concurrent|" + observer, joinTags(facts), "property C18 class " + cls + ": " + r);
        return;
    }
    fillResult(out, 0, threads >= 4 && m.e.size() >= 3, 0, "", joinTags(facts), "");
    out->work = work;
}

// Every case runs in a forked child, i.e. in a process in which no BaseGraph entry point has run yet;
// a ThreadSanitizer report kills the child (halt_on_error) and is reported as the case's failure.
template <class G>
void run(const Case &c, verif_result *out) {
    std::string cls = c.get("class") + ":" + c.get("label", "none");
    std::string how;
    int status = 0;
    if (runForked([&](verif_result *o) { runInner<G>(c, o); }, out, how, &status))
        return;
    bool tsan = WIFEXITED(status) && WEXITSTATUS(status) == 95;
    fillResult(out, 1, false, 0, cls + "|concurrent|" + (tsan ? "thread-sanitizer-report" : "child-died"), "",
               "property C18 class " + cls + ": the process running the concurrent readers ended abnormally (" + how + ")" +
                   (tsan ? ": ThreadSanitizer reported a data race (report on stderr)" : ""));
}

} // namespace

#if CC_GROUP == 0
extern "C" const char *__tsan_default_options() { return "halt_on_error=1:exitcode=95:report_signal_unsafe=0"; }
#endif

#if CC_GROUP == 0
VERIF_REGISTER(DS_none, DirectedGraph) VERIF_REGISTER(US_none, UndirectedGraph)
#elif CC_GROUP == 1
VERIF_REGISTER(DM_none, DirectedMultigraph) VERIF_REGISTER(UM_none, UndirectedMultigraph)
#elif CC_GROUP == 2
VERIF_REGISTER(DW_none, DirectedWeightedGraph) VERIF_REGISTER(UW_none, UndirectedWeightedGraph)
#elif CC_GROUP == 3
VERIF_REGISTER(DL_int, LabeledDirectedGraph<int>) VERIF_REGISTER(UL_int, LabeledUndirectedGraph<int>)
#elif CC_GROUP == 4
VERIF_REGISTER(DL_string, LabeledDirectedGraph<std::string>) VERIF_REGISTER(UL_string, LabeledUndirectedGraph<std::string>)
#else
#error "CC_GROUP must be 0..4"
#endif

// Executor for C09: reversal, directed<->undirected conversion, copies and the
// edge-list constructors of all eight classes.
#include "gcase.hpp"
#include "registry.hpp"

#include <deque>
#include <forward_list>
#include <list>
#include <set>

using namespace verif;
using namespace BaseGraph;

namespace {

template <class L>
std::string labStr(const L &l) {
    return "L" + std::to_string(labelIndex<L>(l));
}

template <class G>
std::string exactOf(const G &g) {
    Obs o;
    observe(g, o);
    char b[64];
    std::snprintf(b, sizeof b, "%La", o.totalW);
    return obsText(o, true, GT<G>::directed) + b;
}
// order-free observations: what "an equal graph" must share (neighbour-list order is not part of a graph's value)
template <class G>
std::string valueOf2(const G &g) {
    Obs o;
    observe(g, o);
    char b[64];
    std::snprintf(b, sizeof b, "%La", o.totalW);
    return obsText(o, false, GT<G>::directed) + b;
}

// value used when an element of an edge container is added
template <class G>
typename GT<G>::Label valueOf(long long x) {
    typedef GT<G> T;
    if (x < 0)
        x = -x;
    if constexpr (T::fam == 'L')
        return LabelCodec<typename T::Label>::mk((int)(T::nolabel ? 0 : x % LABEL_K));
    else if constexpr (T::fam == 'M')
        return (unsigned)(1 + x % 3);
    else
        return weightOf(x, "int");
}

// value of a container element: as valueOf, but a multigraph entry may have multiplicity 0 (adds nothing, yet its
// indices count for the size: "1+largest-index vertices ... equal to adding those edges one at a time")
template <class G>
typename GT<G>::Label ctorValueOf(long long x, StepFacts &facts) {
    if constexpr (GT<G>::fam == 'M') {
        if (x < 0)
            x = -x;
        if (x % 5 == 4) {
            facts.tag("ctor_entry_of_multiplicity_0");
            return 0u;
        }
    }
    return valueOf<G>(x);
}

template <class G, class V>
void addOne(G &g, unsigned i, unsigned j, const V &v) {
    typedef GT<G> T;
    if constexpr (T::fam == 'M')
        g.addMultiedge(i, j, v);
    else
        g.addEdge(i, j, v);
}

// ---- constructors from containers -------------------------------------------------------
template <class G, class Cont>
std::string ctorCheck(const char *cname, const Cont &cont, size_t expectSize, const G &expected, std::string &observer) {
    try {
        G made(cont);
        if (made.getSize() != expectSize) {
            observer = std::string("ctor-size(") + cname + ")";
            return std::string("constructed from ") + cname + ": size " + std::to_string(made.getSize()) + " expected " + std::to_string(expectSize);
        }
        if (!(made == expected) || !(expected == made) || made != expected) {
            observer = std::string("ctor-equals-incremental(") + cname + ")";
            return std::string("graph constructed from a ") + cname + " differs from the one obtained by adding the same elements one at a time";
        }
        if (valueOf2(made) != valueOf2(expected)) {
            observer = std::string("ctor-observers(") + cname + ")";
            return std::string("graph constructed from a ") + cname + " shows other observations than the incrementally built one";
        }
    } catch (const std::exception &ex) {
        observer = std::string("ctor-threw(") + cname + ")";
        return std::string("constructor from ") + cname + " threw " + typeid(ex).name() + ": " + ex.what();
    }
    return "";
}

template <class G>
std::string ctorChecks(const GSpec &s, std::string &observer, StepFacts &facts) {
    typedef GT<G> T;
    typedef typename T::Label L;
    // the sequence handed to the constructors (core indices, no padding)
    std::vector<GEdge> seq;
    for (auto e : s.edges) {
        if (e.remove || e.force || e.set)
            continue; // a container of edges has no removals / forced insertions / value updates
        e.i -= (unsigned)s.padFront;
        e.j -= (unsigned)s.padFront;
        seq.push_back(e);
    }
    {
        std::set<UPair> seen;
        for (auto &e : seq) {
            UPair k = T::directed || e.i <= e.j ? UPair(e.i, e.j) : UPair(e.j, e.i);
            if (!seen.insert(k).second)
                facts.tag("ctor_repeated_pair");
        }
    }
    auto incremental = [&](const auto &cont, auto getI, auto getJ, auto getV, size_t &size) {
        G h(0);
        size = 0;
        unsigned mx = 0;
        bool any = false;
        for (const auto &el : cont) {
            mx = std::max(mx, std::max(getI(el), getJ(el)));
            any = true;
        }
        size = any ? (size_t)mx + 1 : 0;
        h.resize(size);
        for (const auto &el : cont)
            addOne(h, getI(el), getJ(el), getV(el));
        return h;
    };
    std::string r;
    if constexpr (T::fam == 'L' && T::nolabel) {
        auto gi = [](const Edge &e) { return e.first; };
        auto gj = [](const Edge &e) { return e.second; };
        auto gv = [](const Edge &) { return NoLabel(); };
        std::vector<Edge> v;
        for (auto &e : seq)
            v.emplace_back(e.i, e.j);
        std::list<Edge> l(v.begin(), v.end());
        std::deque<Edge> d(v.begin(), v.end());
        std::forward_list<Edge> f(v.begin(), v.end());
        std::set<Edge> st(v.begin(), v.end());
        std::multiset<Edge> ms(v.begin(), v.end());
        size_t sz;
#define TRY(name, cont)                                                                                                \
    if (r.empty()) {                                                                                                   \
        G h = incremental(cont, gi, gj, gv, sz);                                                                       \
        r = ctorCheck<G>(name, cont, sz, h, observer);                                                                 \
    }
        TRY("std::vector<Edge>", v)
        TRY("std::list<Edge>", l)
        TRY("std::deque<Edge>", d)
        TRY("std::forward_list<Edge>", f)
        TRY("std::set<Edge>", st)
        TRY("std::multiset<Edge>", ms)
    } else {
        typedef LabeledEdge<L> LE;
        auto gi = [](const LE &e) { return std::get<0>(e); };
        auto gj = [](const LE &e) { return std::get<1>(e); };
        auto gv = [](const LE &e) { return std::get<2>(e); };
        std::vector<LE> v;
        for (auto &e : seq)
            v.emplace_back(e.i, e.j, ctorValueOf<G>(e.x, facts));
        std::list<LE> l(v.begin(), v.end());
        std::deque<LE> d(v.begin(), v.end());
        std::forward_list<LE> f(v.begin(), v.end());
        size_t sz;
        TRY("std::vector<LabeledEdge>", v)
        TRY("std::list<LabeledEdge>", l)
        TRY("std::deque<LabeledEdge>", d)
        TRY("std::forward_list<LabeledEdge>", f)
        if constexpr (!std::is_same<L, Tag>::value) {
            std::set<LE> st(v.begin(), v.end());
            std::multiset<LE> ms(v.begin(), v.end());
            TRY("std::set<LabeledEdge>", st)
            TRY("std::multiset<LabeledEdge>", ms)
        }
#undef TRY
    }
    if (r.empty())
        facts.tag("ctor_checked");
    return r;
}

// ---- copies ----------------------------------------------------------------------------------
template <class G>
std::string copyChecks(const G &g, const Model &m, std::string &observer, StepFacts &facts) {
    typedef GT<G> T;
    std::string ex0 = exactOf(g), val0 = valueOf2(g);
    auto mutate = [&](G &x) {
        // one visible change: add the first absent pair, else remove the first present one, else grow
        for (unsigned i = 0; i < m.n; ++i)
            for (unsigned j = 0; j < m.n; ++j)
                if (!m.has(i, j)) {
                    addOne(x, i, j, valueOf<G>(5));
                    return;
                }
        if (!m.e.empty()) {
            auto k = m.e.begin()->first;
            if constexpr (T::fam == 'M')
                x.removeMultiedge(k.first, k.second, 1000000);
            else
                x.removeEdge(k.first, k.second);
            return;
        }
        x.resize(x.getSize() + 1);
    };
    {
        G c(g);
        if (!(c == g) || !(g == c) || c != g || valueOf2(c) != val0) {
            observer = "copy-construct";
            return "a copy-constructed graph is not equal to / does not show the same observations as its source";
        }
        mutate(c);
        if (exactOf(g) != ex0) {
            observer = "copy-independence";
            return "mutating a copy-constructed graph changed its source";
        }
        if (c == g || !(c != g)) {
            observer = "copy-then-mutate-equality";
            return "a mutated copy still compares equal to its source";
        }
    }
    {
        G c(1);
        addOne(c, 0, 0, valueOf<G>(2));
        c = g;
        if (!(c == g) || !(g == c) || valueOf2(c) != val0) {
            observer = "copy-assign";
            return "a copy-assigned graph is not equal to / does not show the same observations as its source";
        }
        G src(g);
        G d(0);
        d = src;
        std::string dBefore = exactOf(d);
        mutate(src);
        if (exactOf(d) != dBefore) {
            observer = "copy-independence";
            return "mutating the source changed its copy-assigned copy";
        }
    }
    facts.tag("copies_checked");
    return "";
}

// ---- conversions -------------------------------------------------------------------------------
template <class L>
std::string convDirected(const LabeledDirectedGraph<L> &g, const Model &m, std::string &observer, StepFacts &facts) {
    constexpr bool nolabel = std::is_same<L, NoLabel>::value;
    size_t n = m.n;
    auto r = g.getReversedGraph();
    if (r.getSize() != n || r.getEdgeNumber() != m.e.size()) {
        observer = "getReversedGraph-size";
        return "getReversedGraph: size/edge count " + std::to_string(r.getSize()) + "/" + std::to_string(r.getEdgeNumber()) + " expected " + std::to_string(n) + "/" + std::to_string(m.e.size());
    }
    for (unsigned i = 0; i < n; ++i)
        for (unsigned j = 0; j < n; ++j) {
            bool e = m.has(i, j);
            if (r.hasEdge(j, i) != e) {
                observer = "getReversedGraph-edges";
                return "getReversedGraph: hasEdge(" + std::to_string(j) + "," + std::to_string(i) + ") is " + (e ? "false" : "true");
            }
            if (e && !nolabel) {
                if (!(r.getEdgeLabel(j, i) == g.getEdgeLabel(i, j))) {
                    observer = "getReversedGraph-labels";
                    return "getReversedGraph: label of (" + std::to_string(j) + "," + std::to_string(i) + ") is " + labStr<L>(r.getEdgeLabel(j, i)) + " expected " + labStr<L>(g.getEdgeLabel(i, j));
                }
                if (i != j && m.find(i, j)->k != 0)
                    facts.tag("nondefault_label_crossed");
            }
        }
    auto rr = r.getReversedGraph();
    if (!(rr == g) || !(g == rr) || rr != g) {
        observer = "reverse-twice";
        return "reversing twice does not give an equal graph";
    }
    // undirected graph constructed from a directed one
    LabeledUndirectedGraph<L> u(g);
    size_t pairs = 0;
    if (u.getSize() != n) {
        observer = "undirected-from-directed-size";
        return "LabeledUndirectedGraph(directed): wrong size";
    }
    for (unsigned i = 0; i < n; ++i)
        for (unsigned j = i; j < n; ++j) {
            bool e = m.has(i, j) || m.has(j, i);
            pairs += e;
            if (u.hasEdge(i, j) != e || u.hasEdge(j, i) != e) {
                observer = "undirected-from-directed-edges";
                return "LabeledUndirectedGraph(directed): pair {" + std::to_string(i) + "," + std::to_string(j) + "} " + (e ? "missing" : "invented");
            }
            if (e && !nolabel) {
                L got = u.getEdgeLabel(i, j);
                bool ok = (m.has(i, j) && got == g.getEdgeLabel(i, j)) || (m.has(j, i) && got == g.getEdgeLabel(j, i));
                if (!ok) {
                    observer = "undirected-from-directed-labels";
                    return "LabeledUndirectedGraph(directed): label of {" + std::to_string(i) + "," + std::to_string(j) + "} is " + labStr<L>(got) + ", not the label of a directed edge between them";
                }
                if (!(u.getEdgeLabel(j, i) == got)) {
                    observer = "undirected-from-directed-labels";
                    return "LabeledUndirectedGraph(directed): label depends on orientation";
                }
            }
        }
    if (u.getEdgeNumber() != pairs) {
        observer = "undirected-from-directed-count";
        return "LabeledUndirectedGraph(directed): edge count " + std::to_string(u.getEdgeNumber()) + " expected " + std::to_string(pairs);
    }
    facts.tag("conversions_checked");
    return "";
}

template <class L>
std::string convUndirected(const LabeledUndirectedGraph<L> &g, const Model &m, std::string &observer, StepFacts &facts) {
    constexpr bool nolabel = std::is_same<L, NoLabel>::value;
    size_t n = m.n;
    auto d = g.getDirectedGraph();
    size_t expect = 0;
    if (d.getSize() != n) {
        observer = "getDirectedGraph-size";
        return "getDirectedGraph: wrong size";
    }
    for (unsigned i = 0; i < n; ++i)
        for (unsigned j = 0; j < n; ++j) {
            bool e = m.has(i, j);
            expect += e;
            if (d.hasEdge(i, j) != e) {
                observer = "getDirectedGraph-edges";
                return "getDirectedGraph: directed edge (" + std::to_string(i) + "," + std::to_string(j) + ") " + (e ? "missing" : "invented");
            }
            if (e) {
                size_t cnt = 0;
                for (auto v : d.getOutNeighbours(i))
                    cnt += v == j;
                if (cnt != 1) {
                    observer = "getDirectedGraph-copies";
                    return "getDirectedGraph: (" + std::to_string(i) + "," + std::to_string(j) + ") listed " + std::to_string(cnt) + " times";
                }
            }
            if (e && !nolabel) {
                if (!(d.getEdgeLabel(i, j) == g.getEdgeLabel(i, j))) {
                    observer = "getDirectedGraph-labels";
                    return "getDirectedGraph: label of (" + std::to_string(i) + "," + std::to_string(j) + ") is " + labStr<L>(d.getEdgeLabel(i, j)) + " expected " + labStr<L>(g.getEdgeLabel(i, j));
                }
                if (i != j && m.find(i, j)->k != 0)
                    facts.tag("nondefault_label_crossed");
            }
        }
    if (d.getEdgeNumber() != expect) {
        observer = "getDirectedGraph-count";
        return "getDirectedGraph: edge count " + std::to_string(d.getEdgeNumber()) + " expected " + std::to_string(expect);
    }
    LabeledUndirectedGraph<L> back(d);
    if (!(back == g) || !(g == back) || back != g) {
        observer = "undirected-directed-undirected";
        return "undirected -> directed -> undirected is not the identity";
    }
    facts.tag("conversions_checked");
    return "";
}

template <class G>
void run(const Case &c, verif_result *out) {
    typedef GT<G> T;
    GSpec s = parseGSpec(c, T::directed);
    std::string cls = c.get("class") + ":" + c.get("label", "none");
    G g(0);
    Model m;
    StepFacts facts;
    std::string observer, r, where = "build";
    try {
        buildGraph(s, "int", g, m);
        r = verifyBuilt(g, m, observer);
        if (r.empty()) {
            where = "conversion";
            if constexpr (T::fam == 'L') {
                if constexpr (T::directed)
                    r = convDirected(g, m, observer, facts);
                else
                    r = convUndirected(g, m, observer, facts);
            }
        }
        if (r.empty()) {
            where = "copy";
            r = copyChecks(g, m, observer, facts);
        }
        if (r.empty() && s.padFront == 0 && s.padBack == 0) {
            where = "constructor";
            r = ctorChecks<G>(s, observer, facts);
        }
    } catch (const std::exception &ex) {
        observer = "exception";
        r = std::string("unexpected exception ") + typeid(ex).name() + ": " + ex.what();
    }
    if (!r.empty()) {
        fillResult(out, 1, false, 0, cls + "|" + where + "|" + observer, joinTags(facts), "property C09 class " + cls + " (" + where + "): " + r);
        return;
    }
    bool nt = facts.tags.count("nondefault_label_crossed") || facts.tags.count("ctor_repeated_pair");
    fillResult(out, 0, nt, 0, "", joinTags(facts), "");
}

} // namespace

#if CV_GROUP == 0
VERIF_REGISTER(DS_none, DirectedGraph) VERIF_REGISTER(US_none, UndirectedGraph)
#elif CV_GROUP == 1
VERIF_REGISTER(DM_none, DirectedMultigraph) VERIF_REGISTER(UM_none, UndirectedMultigraph)
#elif CV_GROUP == 2
VERIF_REGISTER(DW_none, DirectedWeightedGraph) VERIF_REGISTER(UW_none, UndirectedWeightedGraph)
#elif CV_GROUP == 3
VERIF_REGISTER(DL_int, LabeledDirectedGraph<int>) VERIF_REGISTER(UL_int, LabeledUndirectedGraph<int>)
#elif CV_GROUP == 4
VERIF_REGISTER(DL_string, LabeledDirectedGraph<std::string>) VERIF_REGISTER(UL_string, LabeledUndirectedGraph<std::string>)
#elif CV_GROUP == 5
VERIF_REGISTER(DL_struct, LabeledDirectedGraph<Tag>) VERIF_REGISTER(UL_struct, LabeledUndirectedGraph<Tag>)
#else
#error "CV_GROUP must be 0..5"
#endif

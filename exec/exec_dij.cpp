// Executor for C12 (Dijkstra against Bellman-Ford on the model) and the
// Dijkstra half of C19 (scan bound V+E+1 on an instrumented graph type).
#include "families.hpp"
#include "gcase.hpp"
#include "forked.hpp"
#include "registry.hpp"

#include "BaseGraph/algorithms/paths.hpp"

#include <cmath>
#include <cstring>
#include <functional>
#include <limits>
#include <list>

using namespace verif;
using namespace BaseGraph;

namespace {

struct WorkExceeded {
    size_t scans;
};

template <class W>
struct CountingWeighted : W {
    // a copy of the graph whose getOutNeighbours counts the neighbourhood scans; the rest of the public interface is inherited
    mutable size_t scans = 0;
    size_t cap = (size_t)-1;
    explicit CountingWeighted(const W &g) : W(g) {}
    const Successors &getOutNeighbours(VertexIndex v) const {
        if (++scans > cap)
            throw WorkExceeded{scans};
        return W::getOutNeighbours(v);
    }
};

uint64_t g_digest = 0;

struct WRef {
    size_t n;
    std::vector<std::vector<std::pair<unsigned, double>>> out;
};

WRef makeRef(const Model &m) {
    WRef r;
    r.n = m.n;
    r.out.assign(m.n, {});
    for (auto &p : m.e) {
        unsigned i = p.first.first, j = p.first.second;
        r.out[i].emplace_back(j, p.second.w);
        if (!m.directed && i != j)
            r.out[j].emplace_back(i, p.second.w);
    }
    return r;
}

std::vector<double> bellmanFord(const WRef &r, unsigned s) {
    const double INF = std::numeric_limits<double>::infinity();
    std::vector<double> d(r.n, INF);
    d[s] = 0;
    for (size_t round = 0; round <= r.n; ++round) {
        bool changed = false;
        for (unsigned u = 0; u < r.n; ++u)
            if (d[u] != INF)
                for (auto &e : r.out[u])
                    if (d[u] + e.second < d[e.first]) {
                        d[e.first] = d[u] + e.second;
                        changed = true;
                    }
        if (!changed)
            break;
    }
    return d;
}

std::string fmt(double v) {
    char b[64];
    std::snprintf(b, sizeof b, "%.17g", v);
    return b;
}

template <class G>
std::string checkSource(const G &g, const Model &m, const WRef &r, unsigned s, bool exact, bool workProp, std::string &observer, StepFacts &facts,
                        unsigned long long &maxScans) {
    const double INF = std::numeric_limits<double>::infinity();
    size_t V = m.n, E = 0;
    for (unsigned v = 0; v < V; ++v)
        E += g.getOutNeighbours(v).size();
    CountingWeighted<G> cg(g);
    // C19: the stated bound; C12: a generous budget that turns a runaway search into a failure
    cg.cap = workProp ? V + E + 1 : 100 * (V + E + 1);
    std::pair<std::vector<EdgeWeight>, std::vector<VertexIndex>> res;
    try {
        res = algorithms::findGeodesicsDijkstra(cg, s);
    } catch (const WorkExceeded &w) {
        observer = workProp ? "findGeodesicsDijkstra-scans" : "termination";
        return "findGeodesicsDijkstra from " + std::to_string(s) + " scanned more than " + std::to_string(cg.cap) + " neighbourhoods (V=" + std::to_string(V) + ", E=" + std::to_string(E) + ")";
    }
    maxScans = std::max<unsigned long long>(maxScans, cg.scans);
    {
        // the search on the graph class itself (the instrumented wrapper forwards to the same object: same answer)
        auto direct = algorithms::findGeodesicsDijkstra(g, s);
        if (direct.first != res.first || direct.second != res.second) {
            observer = "class-vs-wrapper";
            return "findGeodesicsDijkstra from " + std::to_string(s) + " answers differently on the graph class and on a wrapper forwarding to it";
        }
    }
    if (exact) {
        for (double dv : res.first) {
            uint64_t bits;
            std::memcpy(&bits, &dv, 8);
            g_digest = (g_digest ^ bits) * 1099511628211ULL + 7;
        }
        for (auto pv : res.second)
            g_digest = (g_digest ^ (uint64_t)pv) * 1099511628211ULL + 7;
    }
    auto ref = bellmanFord(r, s);
    const auto &dist = res.first;
    const auto &pred = res.second;
    if (dist.size() != V || pred.size() != V) {
        observer = "result-size";
        return "result vectors have the wrong length";
    }
    std::string S = "source " + std::to_string(s) + ": ";
    auto close = [&](double a, double b) {
        if (a == b)
            return true;
        if (exact)
            return false;
        double tol = 2.0 * (double)V * std::ldexp(1.0, -52) * std::max(1.0, std::fabs(b));
        return std::fabs(a - b) <= tol;
    };
    for (unsigned v = 0; v < V; ++v) {
        if (ref[v] == INF) {
            facts.tag("unreachable");
            if (dist[v] != INF) {
                observer = "distance";
                return S + "distance of unreachable vertex " + std::to_string(v) + " is " + fmt(dist[v]);
            }
            if ((size_t)pred[v] != algorithms::BASEGRAPH_VERTEX_MAX) {
                observer = "predecessor";
                return S + "predecessor of unreachable vertex " + std::to_string(v) + " is " + std::to_string(pred[v]) + ", not the sentinel";
            }
            continue;
        }
        if (!close(dist[v], ref[v])) {
            observer = "distance";
            return S + "distance of " + std::to_string(v) + " is " + fmt(dist[v]) + " expected " + fmt(ref[v]);
        }
        if (v == s) {
            if (dist[v] != 0 || pred[v] != s) {
                observer = "source";
                return S + "the source has distance " + fmt(dist[v]) + " and predecessor " + std::to_string(pred[v]);
            }
            continue;
        }
        unsigned p = pred[v];
        if (p >= V || !m.has(p, v)) {
            observer = "predecessor";
            return S + "predecessor of " + std::to_string(v) + " is " + std::to_string(p) + " which is not joined to it by an edge";
        }
        double w = m.find(p, v)->w;
        if (!close(dist[v], dist[p] + w)) {
            observer = "tree-consistency";
            return S + "dist[" + std::to_string(v) + "]=" + fmt(dist[v]) + " != dist[" + std::to_string(p) + "]+w=" + fmt(dist[p] + w);
        }
        // the predecessors form a tree rooted at the source: following them from v reaches s within V steps
        {
            unsigned cur = v;
            size_t steps = 0;
            while (cur != s && steps <= V) {
                if (pred[cur] >= V) {
                    steps = V + 1;
                    break;
                }
                cur = pred[cur];
                ++steps;
            }
            if (cur != s || steps > V) {
                observer = "tree-consistency";
                return S + "following the predecessors from " + std::to_string(v) + " does not lead back to the source (no tree)";
            }
        }
        // tie detection (for the non-triviality rule)
        int routes = 0;
        for (unsigned u = 0; u < V; ++u)
            if (ref[u] != INF)
                for (auto &e : r.out[u])
                    if (e.first == v && ref[u] + e.second == ref[v])
                        ++routes;
        if (routes >= 2)
            facts.tag("tie");
    }
    return "";
}

bool zeroCycle(const WRef &r) {
    // a cycle made of zero-weight edges (self-loops count)
    std::vector<int> state(r.n, 0);
    std::function<bool(unsigned)> dfs = [&](unsigned u) {
        state[u] = 1;
        for (auto &e : r.out[u])
            if (e.second == 0) {
                if (state[e.first] == 1)
                    return true;
                if (state[e.first] == 0 && dfs(e.first))
                    return true;
            }
        state[u] = 2;
        return false;
    };
    for (unsigned v = 0; v < r.n; ++v)
        if (state[v] == 0 && dfs(v))
            return true;
    return false;
}

// Searches keep no memory of earlier ones: the same search gives the same (already validated) answer after d-1 other
// searches that never reach its source.  d is a word-size boundary (2^8, 2^16) of a call counter.
template <class G>
std::string checkAfterManyCalls(const G &g, const Model &m, const WRef &r, long long d, std::string &observer, StepFacts &facts) {
    const double INF = std::numeric_limits<double>::infinity();
    size_t V = m.n;
    for (unsigned s = 0; s < V; ++s) {
        // a source that reaches something, and another vertex whose searches never reach that source
        auto ds = bellmanFord(r, s);
        size_t reached = 0;
        for (unsigned v = 0; v < V; ++v)
            reached += v != s && ds[v] != INF;
        if (!reached)
            continue;
        long long other = -1;
        for (unsigned u = 0; u < V && other < 0; ++u)
            if (u != s && bellmanFord(r, u)[s] == INF)
                other = u;
        if (other < 0)
            continue;
        CountingWeighted<G> cg(g), cu(g);
        auto before = algorithms::findGeodesicsDijkstra(g, s);
        auto beforeW = algorithms::findGeodesicsDijkstra(cg, s);
        for (long long i = 1; i < d; ++i) {
            (void)algorithms::findGeodesicsDijkstra(g, (VertexIndex)other);
            (void)algorithms::findGeodesicsDijkstra(cu, (VertexIndex)other);
        }
        auto after = algorithms::findGeodesicsDijkstra(g, s);
        auto afterW = algorithms::findGeodesicsDijkstra(cg, s);
        facts.tag("many_calls_between_" + std::to_string(d));
        if (before.first != after.first || before.second != after.second || beforeW.first != afterW.first || beforeW.second != afterW.second) {
            observer = "after-many-calls";
            return "findGeodesicsDijkstra from " + std::to_string(s) + " answers differently after " + std::to_string(d - 1) + " searches from " + std::to_string(other) + " (which never reach " +
                   std::to_string(s) + ")";
        }
        return "";
    }
    return "";
}

// `fresh 1`: the case runs in a forked child of a process that never searched, on the directed and the undirected weighted graph
// built from the same edge list, in a generated order
template <class X>
std::string freshOne(const Case &c, const char *what, std::string &observer, StepFacts &facts) {
    typedef GT<X> T;
    GSpec s = parseGSpec(c, T::directed);
    X g(0);
    Model m;
    buildGraph(s, c.get("wmode", "int"), g, m);
    WRef ref = makeRef(m);
    unsigned long long scans = 0;
    for (unsigned sv = 0; sv < m.n; ++sv) {
        std::string r = checkSource(g, m, ref, sv, true, false, observer, facts, scans);
        if (!r.empty())
            return std::string("on the ") + what + ": " + r;
    }
    return "";
}
template <class G>
void runFresh(const Case &c, verif_result *out) {
    typedef typename std::conditional<GT<G>::directed, UndirectedWeightedGraph, DirectedWeightedGraph>::type Other;
    std::string cls = c.get("class") + ":" + c.get("label", "none");
    StepFacts facts;
    std::string observer, r;
    g_digest = 1469598103934665603ULL;
    try {
        bool otherFirst = c.geti("fresh_order", 0) % 2 == 1;
        for (int k = 0; k < 2 && r.empty(); ++k) {
            if ((k == 0) != otherFirst)
                r = freshOne<G>(c, "class of the case", observer, facts);
            else
                r = freshOne<Other>(c, "class of the other directedness", observer, facts);
            if (!r.empty())
                r = "searched as number " + std::to_string(k + 1) + " of two classes in a fresh process, " + r;
        }
    } catch (const std::exception &ex) {
        observer = "exception";
        r = std::string("unexpected exception ") + typeid(ex).name() + ": " + ex.what();
    }
    facts.tag("fresh_process_two_classes");
    if (!r.empty()) {
        fillResult(out, 1, false, 0, cls + "|fresh|" + observer, joinTags(facts), "property C12 class " + cls + " (fresh): " + r);
        return;
    }
    fillResult(out, 0, facts.tags.count("zero_weight_cycle") || facts.tags.count("tie") || facts.tags.count("unreachable"), g_digest, "", joinTags(facts), "");
}

template <class G>
void runInner(const Case &c, verif_result *out);

template <class G>
void run(const Case &c, verif_result *out) {
    if (c.geti("fresh", 0) == 0) {
        runInner<G>(c, out);
        return;
    }
    std::string how;
    if (!runForked([&](verif_result *o) { runFresh<G>(c, o); }, out, how)) {
        std::string cls = c.get("class") + ":" + c.get("label", "none");
        fillResult(out, 1, false, 0, cls + "|fresh|child-died", "", "property C12 class " + cls + ": the process running the case ended abnormally (" + how + ")");
    }
}

template <class G>
void runInner(const Case &c, verif_result *out) {
    typedef GT<G> T;
    std::string prop = c.get("prop", "C12");
    std::string cls = c.get("class") + ":" + c.get("label", "none");
    std::string wmode = c.get("wmode", "int");
    bool exact = wmode != "rounded";
    bool built = false;
    G g(0);
    Model m;
    StepFacts facts;
    std::string observer, r, where = "build";
    unsigned long long maxScans = 0;
    g_digest = 1469598103934665603ULL;
    try {
        std::string fam = c.get("family", "");
        GSpec s;
        if (!fam.empty()) {
            std::vector<FamEdge> fe;
            s.n = familyEdges(fam, c.geti("fa", 2), c.geti("fb", 4), fe);
            long long wk = c.geti("fw", 1); // 0: all zero, 1: all one, else varying
            long long x = 0;
            bool explicitW = false;
            for (auto &e : fe) {
                ++x;
                s.edges.push_back(GEdge{e.i, e.j, wk <= 1 ? wk : (x * wk) % 5});
                explicitW |= e.w >= 0;
            }
            facts.tag("family_" + fam);
            if (explicitW) {
                // families that come with their own (non-dyadic) weights
                g = G(s.n);
                m = Model();
                m.directed = T::directed;
                m.fam = 'W';
                m.n = s.n;
                for (auto &e : fe) {
                    UPair k = m.key(e.i, e.j);
                    if (m.e.count(k))
                        continue;
                    double w = e.w >= 0 ? e.w : 1.0;
                    g.addEdge(e.i, e.j, w);
                    MVal v;
                    v.copies = 1;
                    v.w = w;
                    m.e[k] = v;
                }
                built = true;
                exact = false;
            }
        } else {
            s = parseGSpec(c, T::directed);
        }
        if (built) {
        } else if (wmode == "rounded") {
            // weights: x / 7 (not exactly representable), still >= 0
            g = G(s.n + s.padFront);
            m = Model();
            m.directed = T::directed;
            m.fam = 'W';
            m.n = s.n + s.padFront;
            for (auto &e : s.edges) {
                double w = (double)(e.x < 0 ? -e.x : e.x) / 7.0;
                UPair k = m.key(e.i, e.j);
                m.absHistory += std::fabs((long double)w);
                ++m.opsHistory;
                if (e.remove) {
                    g.removeEdge(e.i, e.j);
                    m.e.erase(k);
                    continue;
                }
                if (e.set) {
                    g.setEdgeWeight(e.i, e.j, w);
                    if (!m.e.count(k)) {
                        MVal v;
                        v.copies = 1;
                        m.e[k] = v;
                    }
                    m.e[k].w = w;
                    continue;
                }
                g.addEdge(e.i, e.j, w);
                if (!m.e.count(k)) {
                    MVal v;
                    v.copies = 1;
                    v.w = w;
                    m.e[k] = v;
                }
            }
        } else {
            buildGraph(s, wmode, g, m);
        }
        // two features one after the other: the searched object is a copy (1), a rebuild through the container
        // constructor from the edges and weights the graph holds (2), or the target of a move (3)
        if (long long via = c.geti("via", 0)) {
            if (via == 1) {
                G h(g);
                g = G(0);
                g = h;
            } else if (via == 2) {
                std::vector<LabeledEdge<EdgeWeight>> v;
                for (auto &p : m.e)
                    v.emplace_back(p.first.first, p.first.second, p.second.w);
                if (m.e.size() % 2) {
                    std::list<LabeledEdge<EdgeWeight>> l(v.rbegin(), v.rend());
                    g = G(l);
                } else
                    g = G(v);
                g.resize(m.n);
            } else {
                G h(std::move(g));
                g = G(1);
                g = std::move(h);
            }
            facts.tag("searched_object_via_" + std::string(via == 1 ? "copy" : via == 2 ? "container_constructor" : "move"));
        }
        if (m.n <= 12)
            r = verifyBuilt(g, m, observer, nullptr, exact);
        WRef ref = makeRef(m);
        if (zeroCycle(ref))
            facts.tag("zero_weight_cycle");
        where = prop == "C19" ? "work" : "search";
        if (r.empty())
            for (unsigned sv = 0; sv < m.n; ++sv) {
                r = checkSource(g, m, ref, sv, exact, prop == "C19", observer, facts, maxScans);
                if (!r.empty())
                    break;
            }
        if (r.empty() && c.geti("wrap_calls", 0) > 0)
            r = checkAfterManyCalls(g, m, ref, c.geti("wrap_calls", 0), observer, facts);
    } catch (const std::exception &ex) {
        observer = "exception";
        r = std::string("unexpected exception ") + typeid(ex).name() + ": " + ex.what();
    }
    out->work = maxScans;
    if (!r.empty()) {
        fillResult(out, 1, false, 0, cls + "|" + where + "|" + observer, joinTags(facts), "property " + prop + " class " + cls + " (" + where + "): " + r);
        out->work = maxScans;
        return;
    }
    bool nt = facts.tags.count("zero_weight_cycle") || facts.tags.count("tie") || (prop != "C19" && facts.tags.count("unreachable"));
    // for C19 the digest field carries the bound V+E+1 (used by the guided search as the scale of `work`)
    size_t E = 0;
    for (unsigned v = 0; v < m.n; ++v)
        E += g.getOutNeighbours(v).size();
    fillResult(out, 0, nt, prop == "C19" ? m.n + E + 1 : g_digest, "", joinTags(facts), "");
    out->work = maxScans;
}

} // namespace

#if DJ_GROUP == 0
VERIF_REGISTER(DW_none, DirectedWeightedGraph)
#elif DJ_GROUP == 1
VERIF_REGISTER(UW_none, UndirectedWeightedGraph)
#else
#error "DJ_GROUP must be 0..1"
#endif

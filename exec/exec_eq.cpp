// Executor for C06: operator== / operator!= / copies over pairs of histories.
// Two engines (graph + model each); `eq` compares the verdict of the real
// operators with value equality of the models.
#include "hist.hpp"
#include <memory>

using namespace verif;
using namespace BaseGraph;

namespace {

Op mk(const std::string &kind, std::initializer_list<long long> a) {
    Op o;
    o.kind = kind;
    for (long long v : a)
        o.a.push_back(std::to_string(v));
    return o;
}
Op mkw(const std::string &kind, long long a, long long b, double w, long long f) {
    Op o;
    o.kind = kind;
    char buf[64];
    std::snprintf(buf, sizeof buf, "%.17g", w);
    o.a = {std::to_string(a), std::to_string(b), "0", buf, std::to_string(f)};
    return o;
}

size_t modelDiff(const Model &a, const Model &b) {
    size_t d = a.n > b.n ? a.n - b.n : b.n - a.n;
    for (auto &p : a.e) {
        auto it = b.e.find(p.first);
        if (it == b.e.end())
            ++d;
        else if (a.fam == 'W' ? !(p.second.w == it->second.w) : (!a.nolabel && p.second.k != it->second.k))
            ++d;
    }
    for (auto &p : b.e)
        if (!a.e.count(p.first))
            ++d;
    return d;
}

template <class G>
struct Pair {
    typedef Engine<G> E;
    std::unique_ptr<E> e[2];
    EngineOptions eo;
    double unit = 1.0; // weight unit of the case (2^wexp): detour weights stay on the same grid, so sums stay exact
    StepFacts facts;
    std::string observer, failedOp;

    // builds *dst as "same value as src, different history"
    std::string rebuild(int s, int d, const Op &op) {
        E &src = *e[s];
        size_t n = src.m.n;
        std::vector<long long> keys;
        for (size_t i = 1; i < op.a.size(); ++i)
            keys.push_back(op.i(i) < 0 ? -op.i(i) : op.i(i));
        if (keys.empty())
            keys.push_back(0);
        auto K = [&](size_t i) { return keys[i % keys.size()]; };
        long long ghost = op.i(0) & 3;
        size_t nStart = n ? (size_t)(K(0) % (long long)(n + 1)) : 0;
        e[d].reset(new E(nStart, eo));
        E &dst = *e[d];
        std::string r = dst.start(observer);
        if (!r.empty())
            return r;
        auto stepd = [&](const Op &o) -> std::string { return dst.step(o, observer); };
        while (dst.m.n < n) {
            size_t add = std::min<size_t>(3, n - dst.m.n);
            r = stepd(mk("resize", {(long long)add}));
            if (!r.empty())
                return r;
        }
        if (n > 0 && ghost != 0) {
            for (size_t gi = 0; gi < 4 && gi < keys.size(); ++gi) {
                long long a = K(gi) % (long long)n, b = K(gi + 1) % (long long)n;
                Op o = GT<G>::fam == 'W' ? mkw("add", a, b, unit * (1.0 + (K(gi) % 5)), 0) : mk("add", {a, b, 0, 1 + K(gi) % 5, 0});
                r = stepd(o);
                if (!r.empty())
                    return r;
            }
            if (!dst.m.e.empty())
                facts.tag("rebuild_with_removed_ghosts");
            if (ghost == 1)
                r = stepd(mk("clear", {}));
            else if (ghost == 2) {
                for (size_t v = 0; v < n && r.empty(); ++v)
                    r = stepd(mk("rmvtx", {(long long)v, 0}));
            } else {
                r = stepd(mk("rmloops", {}));
                while (r.empty() && !dst.m.e.empty()) {
                    auto k = dst.m.e.begin()->first;
                    bool flip = !dst.m.directed && (K(k.first) & 1);
                    if (GT<G>::fam == 'M')
                        r = stepd(mk("rmk", {flip ? k.second : k.first, flip ? k.first : k.second, 0, 1000000}));
                    else
                        r = stepd(mk("rm", {flip ? k.second : k.first, flip ? k.first : k.second, 0}));
                }
            }
            if (!r.empty())
                return r;
        }
        // real edges in a generated order / orientation, some through a wrong value first
        std::vector<std::pair<long long, std::pair<UPair, MVal>>> order;
        size_t idx = 0;
        for (auto &p : src.m.e)
            order.push_back({K(idx++), {p.first, p.second}});
        std::stable_sort(order.begin(), order.end(), [](const auto &x, const auto &y) { return x.first < y.first; });
        idx = 0;
        for (auto &o : order) {
            UPair k = o.second.first;
            const MVal &v = o.second.second;
            long long a = k.first, b = k.second;
            if (!src.m.directed && (K(idx + 1) & 1))
                std::swap(a, b);
            bool detour = K(idx + 2) % 3 == 0;
            ++idx;
            if (GT<G>::fam == 'W') {
                if (detour) {
                    r = stepd(mkw("add", a, b, v.w + unit, 0));
                    // corrected through setEdgeWeight, named in the other orientation when undirected
                    if (r.empty())
                        r = src.m.directed ? stepd(mkw("setw", a, b, v.w, 0)) : stepd(mkw("setw", b, a, v.w, 0));
                } else
                    r = stepd(mkw("add", a, b, v.w, 0));
            } else if (GT<G>::fam == 'M') {
                if (detour) {
                    // a wrong multiplicity first (kept inside the 32-bit EdgeMultiplicity range), corrected below
                    r = stepd(mk("add", {a, b, 0, v.k + 2 <= 4294967295LL ? v.k + 2 : v.k - 1, 0}));
                    if (r.empty())
                        r = src.m.directed ? stepd(mk("setm", {a, b, 0, v.k})) : stepd(mk("setm", {b, a, 0, v.k}));
                } else if (v.k <= 3 && K(idx) % 2) {
                    for (long long c = 0; c < v.k && r.empty(); ++c)
                        r = stepd(mk("add1", {a, b, 0, 1, 0}));
                } else
                    r = stepd(mk("add", {a, b, 0, v.k, 0}));
            } else {
                if (detour && !GT<G>::nolabel) {
                    r = stepd(mk("add", {a, b, 0, (v.k + 1) % LABEL_K, 0}));
                    if (r.empty())
                        r = src.m.directed ? stepd(mk("setl", {a, b, 0, v.k, K(idx) & 1})) : stepd(mk("setl", {b, a, 0, v.k, K(idx) & 1}));
                } else
                    r = stepd(mk("add", {a, b, 0, v.k, 0}));
            }
            if (!r.empty())
                return r;
        }
        if (!dst.m.sameValue(src.m)) {
            observer = "harness";
            return "harness error: rebuilt model differs from the source model";
        }
        for (auto &t : dst.facts.tags)
            if (t.rfind("removed_by_", 0) == 0)
                facts.tag("rebuild_history_has_removal");
        facts.tag("rebuild");
        return "";
    }

    std::string doEq() {
        const G &a = e[0]->g, &b = e[1]->g;
        bool exp = e[0]->m.sameValue(e[1]->m);
        bool ab = (a == b), ba = (b == a), nab = (a != b), nba = (b != a), aa = (a == a), bb = (b == b), naa = (a != a);
        size_t diff = modelDiff(e[0]->m, e[1]->m);
        facts.tag(exp ? "eq_expected_true" : "eq_expected_false");
        if (diff == 1)
            facts.tag("eq_one_difference");
        if (exp && (e[0]->facts.tags.count("rm_eff") || e[1]->facts.tags.count("rm_eff")))
            facts.tag("eq_true_after_removals");
        auto B = [](bool v) { return v ? "true" : "false"; };
        if (ab != exp || ba != exp || nab == exp || nba == exp || !aa || !bb || naa) {
            observer = ab != exp || ba != exp ? "operator==" : (!aa || !bb || naa) ? "reflexivity" : "operator!=";
            return std::string("operator==/!= disagree with value equality of the models (expected ") + B(exp) + ", models differ in " +
                   std::to_string(diff) + " place(s)): g0==g1 " + B(ab) + ", g1==g0 " + B(ba) + ", g0!=g1 " + B(nab) + ", g1!=g0 " + B(nba) +
                   ", g0==g0 " + B(aa) + ", g1==g1 " + B(bb) + "\n g0 calls: " + e[0]->trace + "\n g1 calls: " + e[1]->trace;
        }
        return "";
    }

    std::string run(const Case &c) {
        size_t capN = c.geti("bign", 0) ? 80 : 12;
        eo.maxN = capN;
        eo.light = capN > 12; // 66-80 vertices: the equality verdicts are the point; the per-step observation leaves out the all-pairs tables
        size_t n0 = std::min<size_t>(capN, (size_t)c.geti("n0", 0)), n1 = std::min<size_t>(capN, (size_t)c.geti("n1", c.geti("n0", 0)));
        e[0].reset(new E(n0, eo));
        e[1].reset(new E(n1, eo));
        std::string r = e[0]->start(observer);
        if (r.empty())
            r = e[1]->start(observer);
        failedOp = "init";
        if (!r.empty())
            return r;
        for (const Op &op : c.ops) {
            failedOp = op.kind;
            int t = op.target ? 1 : 0;
            if (op.kind == "eq") {
                r = doEq();
            } else if (op.kind == "rebuild") {
                r = rebuild(t, 1 - t, op);
                if (r.empty())
                    r = doEq();
            } else if (op.kind == "copy") {
                // copy of e[t] into e[1-t]: 0 copy construction, 1 copy assignment
                Obs srcObs;
                observe(e[t]->g, srcObs);
                std::string before = obsText(srcObs, false, GT<G>::directed); // order-free: what an equal graph must share
                if (op.i(0) & 1) {
                    e[1 - t]->g = e[t]->g;
                    e[1 - t]->m = e[t]->m;
                    e[1 - t]->removedBy = e[t]->removedBy;
                    e[1 - t]->absWeightSum = e[t]->absWeightSum;
                    e[1 - t]->nOps = e[t]->nOps;
                    facts.tag("copy_assign");
                } else {
                    e[1 - t].reset(new E(*e[t]));
                    facts.tag("copy_construct");
                }
                e[1 - t]->trace += "[copied]; ";
                r = e[1 - t]->checkNow(observer);
                Obs cpObs;
                if (r.empty())
                    observe(e[1 - t]->g, cpObs);
                if (r.empty() && obsText(cpObs, false, GT<G>::directed) != before) {
                    observer = "copy";
                    r = "a copy does not show the same observations as its source";
                }
                if (r.empty())
                    r = doEq();
                copied = true;
            } else {
                std::string otherBefore = e[1 - t]->lastExact;
                r = e[t]->step(op, observer);
                if (r.empty() && copied) {
                    // independence: the other graph must not move
                    r = e[1 - t]->checkNow(observer);
                    if (r.empty() && e[1 - t]->lastExact != otherBefore) {
                        observer = "copy-independence";
                        r = "mutating one graph changed the observable state of its copy/source";
                    }
                    if (r.empty())
                        facts.tag("mutate_after_copy");
                }
            }
            if (!r.empty())
                return r;
        }
        failedOp = "final-eq";
        return doEq();
    }
    bool copied = false;
};

template <class G>
void run(const Case &c, verif_result *out) {
    Pair<G> p;
    p.eo.prop = "C06";
    p.eo.exactWeights = c.get("mode", "exact") != "rounded";
    p.unit = std::ldexp(1.0, (int)c.geti("wexp", 0));
    std::string cls = c.get("class") + ":" + c.get("label", "none");
    std::string r = p.run(c);
    StepFacts all = p.facts;
    for (int k = 0; k < 2; ++k)
        if (p.e[k])
            for (auto &t : p.e[k]->facts.tags)
                all.tags.insert(t);
    uint64_t dg = (p.e[0] ? p.e[0]->digest : 0) * 31 + (p.e[1] ? p.e[1]->digest : 0);
    if (!r.empty()) {
        fillResult(out, 1, false, dg, cls + "|" + p.failedOp + "|" + p.observer, joinTags(all),
                   "property C06 class " + cls + " (" + p.failedOp + "): " + r);
        return;
    }
    bool nt = (all.tags.count("rebuild_history_has_removal") || all.tags.count("eq_true_after_removals") || all.tags.count("eq_one_difference"));
    fillResult(out, 0, nt, dg, "", joinTags(all), "");
}

} // namespace

#ifndef EQ_DISPATCH
#define DEF(name, ...) void eq_run_##name(const Case &c, verif_result *out) { run<__VA_ARGS__>(c, out); }
#if EQ_GROUP == 0
DEF(DS_none, DirectedGraph) DEF(US_none, UndirectedGraph)
#elif EQ_GROUP == 1
DEF(DM_none, DirectedMultigraph) DEF(UM_none, UndirectedMultigraph)
#elif EQ_GROUP == 2
DEF(DW_none, DirectedWeightedGraph) DEF(UW_none, UndirectedWeightedGraph)
#elif EQ_GROUP == 3
DEF(DL_int, LabeledDirectedGraph<int>) DEF(UL_int, LabeledUndirectedGraph<int>)
#elif EQ_GROUP == 4
DEF(DL_string, LabeledDirectedGraph<std::string>) DEF(UL_string, LabeledUndirectedGraph<std::string>)
#elif EQ_GROUP == 5
DEF(DL_struct, LabeledDirectedGraph<Tag>) DEF(UL_struct, LabeledUndirectedGraph<Tag>)
#else
#error "EQ_GROUP must be 0..5"
#endif
#else
#define EQ_PARTS(X)                                                                                                    \
    X(DS_none) X(US_none) X(DM_none) X(UM_none) X(DW_none) X(UW_none) X(DL_int) X(UL_int) X(DL_string) X(UL_string)    \
    X(DL_struct) X(UL_struct)
#define X(n) void eq_run_##n(const Case &c, verif_result *out);
EQ_PARTS(X)
#undef X
extern "C" const char *verif_executor_name(void) { return "eq (C06)"; }
extern "C" int verif_run_case(const char *text, size_t len, verif_result *out) {
    std::memset(out, 0, sizeof *out);
    Case c;
    std::string err;
    try {
        if (!parseCase(text, len, c, err)) {
            fillResult(out, 2, false, 0, "", "", "parse error: " + err);
            return 2;
        }
        std::string name = c.get("class", "DS") + "_" + c.get("label", "none");
        bool ok = false;
#define X(n)                                                                                                           \
    if (!ok && name == #n) {                                                                                           \
        eq_run_##n(c, out);                                                                                            \
        ok = true;                                                                                                     \
    }
        EQ_PARTS(X)
#undef X
        if (!ok) {
            fillResult(out, 2, false, 0, "", "", "unknown class/label " + name);
            return 2;
        }
    } catch (const std::exception &ex) {
        fillResult(out, 1, false, 0, "harness|uncaught|" + std::string(typeid(ex).name()), "", std::string("uncaught exception: ") + ex.what());
    } catch (...) {
        fillResult(out, 1, false, 0, "harness|uncaught|unknown", "", "uncaught non-std exception");
    }
    return out->verdict;
}
#endif

// Executor for the history properties C01-C05 and C16: one graph, one model,
// every observer compared after every step.
#include "hist.hpp"

using namespace verif;
using namespace BaseGraph;

namespace {

bool has(const StepFacts &f, const char *t) { return f.tags.count(t) != 0; }

bool nontrivial(const std::string &prop, const StepFacts &f) {
    size_t kinds = f.kinds.size();
    if (prop == "C01")
        return kinds >= 3 && has(f, "rm_eff") && (has(f, "noop_readd") || has(f, "noop_rm_absent"));
    if (prop == "C02")
        return kinds >= 3 && (has(f, "rmvtx_with_loop") || has(f, "rm_opposite_orientation"));
    if (prop == "C03")
        return has(f, "removed_by_clear") || has(f, "removed_by_rmvtx") || has(f, "removed_by_rmloops");
    if (prop == "C04")
        return kinds >= 4 && (has(f, "setm0_on_multi") || has(f, "removed_multi_by_rmvtx") || has(f, "removed_multi_by_clear") ||
                              has(f, "removed_multi_by_rmloops"));
    if (prop == "C05")
        return kinds >= 4 && (has(f, "setw_present_desc") || has(f, "bulk_eff"));
    if (prop == "C09")
        return (has(f, "reversal_in_history") || has(f, "conversion_in_history")) && (has(f, "relabel") || has(f, "rm_eff"));
    if (prop == "C17")
        return has(f, "forced_dup") && kinds >= 4;
    if (prop == "C16")
        return has(f, "forced_dup") && (has(f, "dedup_eff") || has(f, "rm_all_copies"));
    return kinds >= 3;
}

template <class G>
void run(const Case &c, verif_result *out) {
    EngineOptions eo;
    eo.prop = c.get("prop", "C01");
    eo.hasLabelSets = (eo.prop == "C03") || c.geti("labelsets", 0) != 0;
    eo.exactWeights = c.get("mode", "exact") != "rounded";
    eo.pairValues = c.geti("pairvalues", 0) != 0;
    eo.bigMult = c.geti("bigmult", 0) != 0;
    size_t n0 = (size_t)c.geti("n0", 0);
    size_t cap = c.geti("huge", 0) ? 800 : c.geti("bign", 0) ? 80 : 12;
    if (n0 > cap)
        n0 = cap;
    eo.maxN = cap;
    eo.light = c.geti("huge", 0) != 0;
    eo.sparseEvery = (unsigned)c.geti("sparse", 0);
    eo.safetyOnly = c.geti("safety_only", 0) != 0;
    Engine<G> e(n0, eo);
    std::string cls = c.get("class") + ":" + c.get("label", "none");
    std::string observer;
    std::string r = e.start(observer);
    std::string failedOp = "init";
    size_t stepNo = 0;
    if (r.empty())
        for (const Op &op : c.ops) {
            ++stepNo;
            r = e.step(op, observer);
            if (!r.empty()) {
                failedOp = op.kind;
                break;
            }
        }
    if (r.empty()) {
        r = e.finish(observer);
        if (!r.empty())
            failedOp = "final-observation";
    }
    if (!r.empty()) {
        std::string msg = "property " + eo.prop + " class " + cls + " step " + std::to_string(stepNo) + " (" + failedOp + "): " + r +
                          "\ncalls so far: " + e.trace;
        fillResult(out, 1, false, e.digest, cls + "|" + failedOp + "|" + observer, joinTags(e.facts), msg);
        return;
    }
    fillResult(out, 0, nontrivial(eo.prop, e.facts), e.digest, "", joinTags(e.facts), "");
}

} // namespace

#define HIST_CAT2(a, b) a##b
#define HIST_CAT(a, b) HIST_CAT2(a, b)

#ifndef HIST_DISPATCH
// The classes are spread over nine translation units (-DHIST_GROUP=0..8) so
// that they compile in parallel; -DHIST_DISPATCH builds the entry point.
#define DEF(name, ...) void hist_run_##name(const Case &c, verif_result *out) { run<__VA_ARGS__>(c, out); }
#if HIST_GROUP == 0
DEF(DS_none, DirectedGraph) DEF(US_none, UndirectedGraph)
#elif HIST_GROUP == 1
DEF(DM_none, DirectedMultigraph) DEF(UM_none, UndirectedMultigraph)
#elif HIST_GROUP == 2
DEF(DW_none, DirectedWeightedGraph) DEF(UW_none, UndirectedWeightedGraph)
#elif HIST_GROUP == 3
DEF(DL_int, LabeledDirectedGraph<int>) DEF(UL_int, LabeledUndirectedGraph<int>)
#elif HIST_GROUP == 4
DEF(DL_unsigned, LabeledDirectedGraph<unsigned>) DEF(UL_unsigned, LabeledUndirectedGraph<unsigned>)
#elif HIST_GROUP == 5
DEF(DL_double, LabeledDirectedGraph<double>) DEF(UL_double, LabeledUndirectedGraph<double>)
#elif HIST_GROUP == 6
DEF(DL_char, LabeledDirectedGraph<char>) DEF(UL_char, LabeledUndirectedGraph<char>)
#elif HIST_GROUP == 7
DEF(DL_string, LabeledDirectedGraph<std::string>) DEF(UL_string, LabeledUndirectedGraph<std::string>)
#elif HIST_GROUP == 8
DEF(DL_struct, LabeledDirectedGraph<Tag>) DEF(UL_struct, LabeledUndirectedGraph<Tag>)
#elif HIST_GROUP == 9
DEF(DL_empty, LabeledDirectedGraph<EmptyTag>) DEF(UL_empty, LabeledUndirectedGraph<EmptyTag>)
#else
#error "HIST_GROUP must be 0..9"
#endif
#else
#define HIST_PARTS(X)                                                                                                  \
    X(DS_none) X(US_none) X(DM_none) X(UM_none) X(DW_none) X(UW_none)                                                  \
    X(DL_int) X(DL_unsigned) X(DL_double) X(DL_char) X(DL_string) X(DL_struct)                                         \
    X(UL_int) X(UL_unsigned) X(UL_double) X(UL_char) X(UL_string) X(UL_struct) X(DL_empty) X(UL_empty)
#define X(n) void hist_run_##n(const Case &c, verif_result *out);
HIST_PARTS(X)
#undef X

extern "C" const char *verif_executor_name(void) { return "hist (C01-C05, C16)"; }

extern "C" int verif_run_case(const char *text, size_t len, verif_result *out) {
    std::memset(out, 0, sizeof *out);
    Case c;
    std::string err;
    try {
        if (!parseCase(text, len, c, err)) {
            fillResult(out, 2, false, 0, "", "", "parse error: " + err);
            return 2;
        }
        std::string name = c.get("class", "DS") + "_" + c.get("label", "none");
        bool ok = false;
#define X(n)                                                                                                           \
    if (!ok && name == #n) {                                                                                           \
        hist_run_##n(c, out);                                                                                          \
        ok = true;                                                                                                     \
    }
        HIST_PARTS(X)
#undef X
        if (!ok) {
            fillResult(out, 2, false, 0, "", "", "unknown class/label " + name);
            return 2;
        }
    } catch (const std::exception &ex) {
        fillResult(out, 1, false, 0, "harness|uncaught|" + std::string(typeid(ex).name()), "",
                   std::string("uncaught exception escaped the engine: ") + ex.what());
    } catch (...) {
        fillResult(out, 1, false, 0, "harness|uncaught|unknown", "", "uncaught non-std exception");
    }
    return out->verdict;
}
#endif

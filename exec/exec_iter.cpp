// Executor for C08: vertex and edge enumeration on every graph shape, and the
// operations that are defined by enumerating edges.
#include "gcase.hpp"
#include "registry.hpp"

#include "BaseGraph/fileio.hpp"

#include <fstream>
#include <unistd.h>

using namespace verif;
using namespace BaseGraph;

namespace {

std::string scratchFile(const char *suffix) {
    const char *d = std::getenv("VERIF_SCRATCH");
    std::string dir = (d && *d) ? d : "/dev/shm";
    return dir + "/iter_" + std::to_string((long)getpid()) + suffix;
}

template <class L>
std::string labelText(const L &l) {
    return std::to_string(labelIndex<L>(l));
}

template <class G>
std::string iterChecks(const G &g, const Model &m, std::string &observer, StepFacts &facts) {
    typedef GT<G> T;
    size_t n = m.n;
    // ---- vertices
    {
        std::vector<unsigned> pre, post, rng, expect;
        for (unsigned v = 0; v < n; ++v)
            expect.push_back(v);
        size_t cap = n + 4;
        for (auto it = g.begin(); it != g.end() && pre.size() < cap; ++it)
            pre.push_back(*it);
        for (auto it = g.begin(); it != g.end() && post.size() < cap;) {
            auto old = it++;
            post.push_back(*old);
        }
        for (VertexIndex v : g) {
            rng.push_back(v);
            if (rng.size() >= cap)
                break;
        }
        if (pre != expect || post != expect || rng != expect) {
            observer = "vertex-iteration";
            return "vertex iteration: pre-increment " + showVec(pre) + ", post-increment " + showVec(post) + ", range-for " + showVec(rng) + ", expected " + showVec(expect);
        }
    }
    // ---- edges
    size_t cap = n * n * 8 + 16;
    for (auto &p : m.e)
        cap += p.second.copies;
    std::vector<UPair> s1, s2, s3, s4;
    bool preOk = true, postOk = true;
    {
        auto er = g.edges();
        auto en = er.end();
        for (auto it = er.begin(); it != en;) {
            Edge e = *it;
            s1.emplace_back(e.first, e.second);
            auto r = ++it;
            if (it != en) {
                Edge a = *r, b = *it;
                if (a != b)
                    preOk = false;
            } else if (r != en)
                preOk = false;
            if (s1.size() > cap)
                break;
        }
        for (auto it = er.begin(); it != en;) {
            Edge before = *it;
            auto old = it++;
            Edge o = *old;
            if (o != before)
                postOk = false;
            s2.emplace_back(o.first, o.second);
            if (s2.size() > cap)
                break;
        }
        for (auto it = er.begin(); it != er.end(); ++it) {
            Edge e = *it;
            s3.emplace_back(e.first, e.second);
            if (s3.size() > cap)
                break;
        }
        for (auto e : g.edges()) {
            s4.emplace_back(e.first, e.second);
            if (s4.size() > cap)
                break;
        }
        bool emptyByIter = (er.begin() == er.end());
        bool neq = (er.begin() != er.end());
        if (emptyByIter != m.e.empty() || neq == emptyByIter) {
            observer = "begin==end";
            return std::string("edges().begin()==end() is ") + (emptyByIter ? "true" : "false") + " (!= gives " + (neq ? "true" : "false") + ") but the graph has " +
                   std::to_string(m.e.size()) + " edge(s)";
        }
    }
    if (s1.size() > cap || s2.size() > cap || s3.size() > cap || s4.size() > cap) {
        observer = "edges()-termination";
        return "edge iteration did not terminate within " + std::to_string(cap) + " steps";
    }
    if (!preOk) {
        observer = "edges()-preincrement";
        return "the value returned by ++it does not denote the new position";
    }
    if (!postOk) {
        observer = "edges()-postincrement";
        return "the value returned by it++ does not denote the old position";
    }
    if (s1 != s2 || s1 != s3 || s1 != s4) {
        observer = "edges()-repeatable";
        return "traversals differ: ++it " + showEdges(s1) + ", it++ " + showEdges(s2) + ", second " + showEdges(s3) + ", range-for " + showEdges(s4);
    }
    {
        std::vector<UPair> a = s1, b;
        for (auto &p : m.e)
            for (unsigned c = 0; c < p.second.copies; ++c)
                b.push_back(p.first);
        if (!T::directed)
            for (auto &p : a)
                if (p.first > p.second)
                    std::swap(p.first, p.second);
        std::sort(a.begin(), a.end());
        std::sort(b.begin(), b.end());
        if (a != b) {
            observer = "edges()";
            return "edges() yields " + showEdges(s1) + " expected (any order) " + showEdges(b);
        }
    }
    if (m.n == 0)
        facts.tag("n_zero");
    if (m.e.empty())
        facts.tag("no_edge");
    else {
        unsigned lo = UINT_MAX, hi = 0;
        for (auto &p : m.e) {
            lo = std::min(lo, std::min(p.first.first, p.first.second));
            hi = std::max(hi, std::max(p.first.first, p.first.second));
        }
        if (lo > 0)
            facts.tag("first_isolated");
        if (hi + 1 < m.n)
            facts.tag("last_isolated");
    }
    for (unsigned v = 0; v < n; ++v) {
        const auto &l = g.getOutNeighbours(v);
        if (!std::is_sorted(l.begin(), l.end()))
            facts.tag("list_not_ascending");
    }
    return "";
}

template <class G>
std::string derivedChecks(const G &g, const Model &m, bool writers, std::string &observer, StepFacts &facts) {
    typedef GT<G> T;
    typedef typename T::Label L;
    if constexpr (T::fam == 'L') {
        if constexpr (T::directed) {
            try {
                auto r = g.getReversedGraph();
                bool ok = r.getSize() == m.n && r.getEdgeNumber() == m.e.size();
                for (auto &p : m.e)
                    if (ok && !r.hasEdge(p.first.second, p.first.first))
                        ok = false;
                if (!ok) {
                    observer = "getReversedGraph";
                    return "getReversedGraph does not hold exactly the flipped edges";
                }
            } catch (const std::exception &ex) {
                observer = "getReversedGraph";
                return std::string("getReversedGraph threw ") + typeid(ex).name() + ": " + ex.what();
            }
        } else {
            try {
                auto d = g.getDirectedGraph();
                size_t expect = 0;
                bool ok = d.getSize() == m.n;
                for (auto &p : m.e) {
                    expect += p.first.first == p.first.second ? 1 : 2;
                    if (ok && (!d.hasEdge(p.first.first, p.first.second) || !d.hasEdge(p.first.second, p.first.first)))
                        ok = false;
                }
                if (!ok || d.getEdgeNumber() != expect) {
                    observer = "getDirectedGraph";
                    return "getDirectedGraph does not hold exactly both orientations of every edge";
                }
            } catch (const std::exception &ex) {
                observer = "getDirectedGraph";
                return std::string("getDirectedGraph threw ") + typeid(ex).name() + ": " + ex.what();
            }
        }
        if (writers) {
            facts.tag("writers");
            std::string tp = scratchFile(".txt"), bp = scratchFile(".bin");
            try {
                if constexpr (T::directed)
                    io::writeTextEdgeList<LabeledDirectedGraph, L>(g, tp, [](const L &l) { return labelText<L>(l); });
                else
                    io::writeTextEdgeList<LabeledUndirectedGraph, L>(g, tp, [](const L &l) { return labelText<L>(l); });
                std::ifstream f(tp);
                std::string line;
                size_t lines = 0;
                while (std::getline(f, line))
                    if (!line.empty() && line[0] != '#')
                        ++lines;
                if (lines != m.e.size()) {
                    observer = "writeTextEdgeList";
                    return "writeTextEdgeList wrote " + std::to_string(lines) + " edge lines for " + std::to_string(m.e.size()) + " edges";
                }
                if constexpr (std::is_same<L, int>::value || T::nolabel) {
                    if constexpr (T::directed)
                        io::writeBinaryEdgeList<LabeledDirectedGraph, L>(g, bp);
                    else
                        io::writeBinaryEdgeList<LabeledUndirectedGraph, L>(g, bp);
                    std::ifstream b(bp, std::ios::binary | std::ios::ate);
                    size_t rec = 8 + (T::nolabel ? 0 : sizeof(L));
                    if ((size_t)b.tellg() != rec * m.e.size()) {
                        observer = "writeBinaryEdgeList";
                        return "writeBinaryEdgeList wrote " + std::to_string((size_t)b.tellg()) + " bytes for " + std::to_string(m.e.size()) + " edges";
                    }
                }
            } catch (const std::exception &ex) {
                observer = "writers";
                ::unlink(tp.c_str());
                ::unlink(bp.c_str());
                return std::string("a file writer threw ") + typeid(ex).name() + ": " + ex.what();
            }
            ::unlink(tp.c_str());
            ::unlink(bp.c_str());
        }
    }
    return "";
}

template <class G>
void run(const Case &c, verif_result *out) {
    typedef GT<G> T;
    GSpec s = parseGSpec(c, T::directed);
    std::string cls = c.get("class") + ":" + c.get("label", "none");
    G g(0);
    Model m;
    StepFacts facts;
    std::string observer, r, where = "build", exactText;
    try {
        buildGraph(s, "int", g, m);
        where = "observers";
        r = verifyBuilt(g, m, observer, &exactText);
        if (r.empty()) {
            where = "iteration";
            r = iterChecks(g, m, observer, facts);
        }
        if (r.empty()) {
            where = "derived";
            r = derivedChecks(g, m, c.geti("writers", 0) != 0, observer, facts);
        }
    } catch (const std::exception &ex) {
        observer = "exception";
        r = std::string("unexpected exception ") + typeid(ex).name() + ": " + ex.what();
    }
    if (!r.empty()) {
        fillResult(out, 1, false, 0, cls + "|" + where + "|" + observer, joinTags(facts), "property C08 class " + cls + " (" + where + "): " + r);
        return;
    }
    bool nt = facts.tags.count("n_zero") || facts.tags.count("no_edge") || facts.tags.count("first_isolated") || facts.tags.count("last_isolated") ||
              facts.tags.count("list_not_ascending");
    fillResult(out, 0, nt, fnv1a(exactText), "", joinTags(facts), "");
}

} // namespace

#if IT_GROUP == 0
VERIF_REGISTER(DS_none, DirectedGraph) VERIF_REGISTER(US_none, UndirectedGraph)
#elif IT_GROUP == 1
VERIF_REGISTER(DM_none, DirectedMultigraph) VERIF_REGISTER(UM_none, UndirectedMultigraph)
VERIF_REGISTER(DW_none, DirectedWeightedGraph) VERIF_REGISTER(UW_none, UndirectedWeightedGraph)
#elif IT_GROUP == 2
VERIF_REGISTER(DL_int, LabeledDirectedGraph<int>) VERIF_REGISTER(UL_int, LabeledUndirectedGraph<int>)
#elif IT_GROUP == 3
VERIF_REGISTER(DL_string, LabeledDirectedGraph<std::string>) VERIF_REGISTER(UL_string, LabeledUndirectedGraph<std::string>)
#else
#error "IT_GROUP must be 0..3"
#endif

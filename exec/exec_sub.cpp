// Executor for C10: induced subgraphs (getSubgraph / getSubgraphWithRemap).
#include "gcase.hpp"
#include "registry.hpp"

#include "BaseGraph/algorithms/topology.hpp"

#include <unordered_set>

using namespace verif;
using namespace BaseGraph;

namespace {

// A rejected extraction (the subset holds a vertex that does not exist) must not influence later ones
// (scratch state kept between calls, left dirty by the exception).  Whether it throws is C07's matter.
template <class G>
void rejectedExtraction(const G &g, const Model &m, unsigned long long mask, StepFacts &facts) {
    // the position of the bad member in the set's iteration order depends on the insertion order: try both
    for (int order = 0; order < 2; ++order) {
        std::unordered_set<VertexIndex> S;
        if (order == 0)
            S.insert((VertexIndex)(m.n + (mask % 3)));
        for (unsigned v = 0; v < m.n; ++v)
            if (((mask >> (v % 64)) & 1) || ((mask >> ((v + 7) % 64)) & 1))
                S.insert(v);
        if (order == 1)
            S.insert((VertexIndex)(m.n + (mask % 3)));
        for (int which = 0; which < 2; ++which)
            try {
                if (which == 0)
                    (void)algorithms::getSubgraph(g, S);
                else
                    (void)algorithms::getSubgraphWithRemap(g, S);
            } catch (const std::exception &) {
                facts.tag("rejected_extraction_before");
            }
    }
}

template <class G>
std::string checkSubset(const G &g, const Model &m, unsigned long long mask, std::string &observer, StepFacts &facts, const std::vector<char> *members = nullptr) {
    typedef GT<G> T;
    typedef typename T::Label L;
    size_t n = m.n;
    if (mask % 4 == 1) // interleave: a rejected call whose subset shares members with none / some / all of the next one
        rejectedExtraction(g, m, (mask * 2654435761ULL) >> 7, facts);
    std::unordered_set<VertexIndex> S;
    std::vector<char> in(n, 0);
    if (members) {
        // explicit member list (graphs with more than 64 vertices); inserted from the top so that the iteration order varies
        for (unsigned v = (unsigned)n; v-- > 0;)
            if ((*members)[v]) {
                S.insert(v);
                in[v] = 1;
            }
    } else
        for (unsigned v = 0; v < n && v < 64; ++v)
            if ((mask >> v) & 1) {
                S.insert(v);
                in[v] = 1;
            }
    size_t inside = 0, crossing = 0;
    for (auto &p : m.e) {
        bool a = in[p.first.first], b = in[p.first.second];
        if (a && b)
            ++inside;
        else if (a || b)
            ++crossing;
    }
    std::string setText = members ? "S=range#" + std::to_string(mask) : "S=" + std::to_string(mask);
    // ---- getSubgraph
    G sub = algorithms::getSubgraph(g, S);
    if (sub.getSize() != n) {
        observer = "getSubgraph-size";
        return "getSubgraph(" + setText + "): size " + std::to_string(sub.getSize()) + " expected " + std::to_string(n);
    }
    for (unsigned i = 0; i < n; ++i)
        for (unsigned j = 0; j < n; ++j) {
            bool e = m.has(i, j) && in[i] && in[j];
            if (sub.hasEdge(i, j) != e) {
                observer = "getSubgraph-edges";
                return "getSubgraph(" + setText + "): edge (" + std::to_string(i) + "," + std::to_string(j) + ") " + (e ? "missing" : "not induced");
            }
            if (e && !T::nolabel && !(sub.getEdgeLabel(i, j) == g.getEdgeLabel(i, j))) {
                observer = "getSubgraph-labels";
                return "getSubgraph(" + setText + "): label of (" + std::to_string(i) + "," + std::to_string(j) + ") differs";
            }
            if (e) {
                size_t cnt = 0;
                for (auto v : sub.getOutNeighbours(i))
                    cnt += v == j;
                if (cnt != 1) {
                    observer = "getSubgraph-copies";
                    return "getSubgraph(" + setText + "): edge listed " + std::to_string(cnt) + " times";
                }
            }
        }
    if (sub.getEdgeNumber() != inside) {
        observer = "getSubgraph-count";
        return "getSubgraph(" + setText + "): getEdgeNumber " + std::to_string(sub.getEdgeNumber()) + " expected " + std::to_string(inside);
    }
    // ---- getSubgraphWithRemap
    auto pr = algorithms::getSubgraphWithRemap(g, S);
    const G &rs = pr.first;
    const auto &mp = pr.second;
    if (rs.getSize() != S.size()) {
        observer = "remap-size";
        return "getSubgraphWithRemap(" + setText + "): size " + std::to_string(rs.getSize()) + " expected " + std::to_string(S.size());
    }
    if (mp.size() != S.size()) {
        observer = "remap-map";
        return "getSubgraphWithRemap(" + setText + "): map has " + std::to_string(mp.size()) + " keys expected " + std::to_string(S.size());
    }
    std::vector<char> used(S.size(), 0);
    for (VertexIndex v : S) {
        auto it = mp.find(v);
        if (it == mp.end() || it->second >= S.size() || used[it->second]) {
            observer = "remap-map";
            return "getSubgraphWithRemap(" + setText + "): map is not a bijection of S onto 0..|S|-1";
        }
        used[it->second] = 1;
    }
    size_t cntEdges = 0;
    for (VertexIndex i : S)
        for (VertexIndex j : S) {
            bool e = m.has(i, j);
            unsigned a = mp.at(i), b = mp.at(j);
            if (rs.hasEdge(a, b) != e) {
                observer = "remap-edges";
                return "getSubgraphWithRemap(" + setText + "): edge (" + std::to_string(i) + "," + std::to_string(j) + ") -> (" + std::to_string(a) + "," + std::to_string(b) + ") " + (e ? "missing" : "not induced");
            }
            if (e && !T::nolabel && !(rs.getEdgeLabel(a, b) == g.getEdgeLabel(i, j))) {
                observer = "remap-labels";
                return "getSubgraphWithRemap(" + setText + "): label of (" + std::to_string(i) + "," + std::to_string(j) + ") differs";
            }
            if (e && (T::directed || i <= j))
                ++cntEdges;
        }
    if (rs.getEdgeNumber() != inside || cntEdges != inside) {
        observer = "remap-count";
        return "getSubgraphWithRemap(" + setText + "): getEdgeNumber " + std::to_string(rs.getEdgeNumber()) + " expected " + std::to_string(inside);
    }
    if (!S.empty() && S.size() < n && inside > 0 && crossing > 0)
        facts.tag("proper_with_inside_and_crossing");
    if (S.empty())
        facts.tag("empty_set");
    if (S.size() == n)
        facts.tag("full_set");
    return "";
}

template <class G>
void run(const Case &c, verif_result *out) {
    typedef GT<G> T;
    GSpec s = parseGSpec(c, T::directed);
    std::string cls = c.get("class") + ":" + c.get("label", "none");
    G g(0);
    Model m;
    StepFacts facts;
    std::string observer, r, where = "build";
    unsigned long long subsets = 0;
    try {
        buildGraph(s, "int", g, m);
        std::string exact0;
        r = verifyBuilt(g, m, observer, &exact0);
        where = "subgraph";
        size_t n = m.n;
        size_t allMax = (size_t)c.geti("all_subsets_upto", 6);
        if (r.empty()) {
            if (n <= allMax) {
                for (unsigned long long mask = 0; mask < (1ULL << n) && r.empty(); ++mask) {
                    r = checkSubset(g, m, mask, observer, facts);
                    ++subsets;
                }
                facts.tag("all_subsets");
            } else {
                std::vector<unsigned long long> masks = {0, n >= 64 ? ~0ULL : ((1ULL << n) - 1)};
                for (const Op &op : c.ops)
                    if (op.kind == "s")
                        masks.push_back(op.u(0) & (n >= 64 ? ~0ULL : ((1ULL << n) - 1)));
                for (auto mk : masks) {
                    if (!r.empty())
                        break;
                    r = checkSubset(g, m, mk, observer, facts);
                    ++subsets;
                }
                // `op sr a len step`: the members a, a+step, ... (len of them, modulo n): subsets of graphs with more than 64 vertices
                for (const Op &op : c.ops)
                    if (op.kind == "sr" && r.empty()) {
                        std::vector<char> mem(n, 0);
                        unsigned long long a = op.u(0), len = op.u(1), step = std::max<unsigned long long>(1, op.u(2));
                        for (unsigned long long k = 0; k < len && k < n; ++k)
                            mem[(a + k * step) % n] = 1;
                        r = checkSubset(g, m, a * 1000003ULL + len * 101 + step, observer, facts, &mem);
                        ++subsets;
                        facts.tag("range_subset");
                    }
            }
        }
        if (r.empty()) {
            std::string exact1, o2;
            verifyBuilt(g, m, o2, &exact1);
            if (exact0 != exact1) {
                observer = "source-changed";
                r = "extracting subgraphs changed the source graph";
            }
        }
    } catch (const std::exception &ex) {
        observer = "exception";
        r = std::string("unexpected exception ") + typeid(ex).name() + ": " + ex.what();
    }
    out->work = subsets;
    if (!r.empty()) {
        fillResult(out, 1, false, 0, cls + "|" + where + "|" + observer, joinTags(facts), "property C10 class " + cls + " (" + where + "): " + r);
        out->work = subsets;
        return;
    }
    fillResult(out, 0, facts.tags.count("proper_with_inside_and_crossing") != 0, 0, "", joinTags(facts), "");
    out->work = subsets;
}

} // namespace

#if SB_GROUP == 0
VERIF_REGISTER(DS_none, DirectedGraph) VERIF_REGISTER(US_none, UndirectedGraph)
#elif SB_GROUP == 1
VERIF_REGISTER(DL_int, LabeledDirectedGraph<int>) VERIF_REGISTER(UL_int, LabeledUndirectedGraph<int>)
#elif SB_GROUP == 2
VERIF_REGISTER(DL_string, LabeledDirectedGraph<std::string>) VERIF_REGISTER(UL_string, LabeledUndirectedGraph<std::string>)
#else
#error "SB_GROUP must be 0..2"
#endif

// Executor for C13: text edge lists.  Modes:
//   roundtrip : graph (gcase) -> writeTextEdgeList -> loadTextEdgeList -> compare
//   indexfile : well-formed file (hex) -> loadTextEdgeList vs the reference parser
//   namefile  : well-formed file (hex) -> loadTextVertexLabeledEdgeList vs the reference parser
#include "gcase.hpp"
#include "registry.hpp"
#include "textref.hpp"

#include "BaseGraph/fileio.hpp"

#include <fstream>
#include <unistd.h>

using namespace verif;
using namespace BaseGraph;

namespace {

std::string scratchFile(const char *suffix) {
    const char *d = std::getenv("VERIF_SCRATCH");
    std::string dir = (d && *d) ? d : "/dev/shm";
    return dir + "/text_" + std::to_string((long)getpid()) + suffix;
}

struct FileGuard {
    std::string p;
    ~FileGuard() { ::unlink(p.c_str()); }
};

template <class L>
struct TextCodec;
template <>
struct TextCodec<int> {
    static std::string to(const int &v) { return std::to_string(v); }
    static int from(const std::string &s) { return std::stoi(s); }
};
template <>
struct TextCodec<unsigned> {
    static std::string to(const unsigned &v) { return std::to_string(v); }
    static unsigned from(const std::string &s) { return (unsigned)std::stoul(s); }
};
template <>
struct TextCodec<double> {
    static std::string to(const double &v) {
        char b[64];
        std::snprintf(b, sizeof b, "%.17g", v);
        return b;
    }
    static double from(const std::string &s) { return std::strtod(s.c_str(), nullptr); }
};
template <>
struct TextCodec<std::string> {
    static std::string to(const std::string &v) { return v; }
    static std::string from(const std::string &s) { return s; }
};
template <>
struct TextCodec<Tag> {
    static std::string to(const Tag &v) { return std::to_string(v.a) + "|" + v.b; }
    static Tag from(const std::string &s) {
        Tag t;
        size_t bar = s.find('|');
        t.a = std::stoi(s.substr(0, bar));
        t.b = bar == std::string::npos ? "" : s.substr(bar + 1);
        return t;
    }
};

template <class G>
struct IO;
template <class L>
struct IO<LabeledDirectedGraph<L>> {
    template <class F>
    static void write(const LabeledDirectedGraph<L> &g, const std::string &p, F f) { io::writeTextEdgeList<LabeledDirectedGraph, L>(g, p, f); }
    static void writeNoLabel(const LabeledDirectedGraph<L> &g, const std::string &p) { io::writeTextEdgeList(g, p); }
    template <class F>
    static std::pair<LabeledDirectedGraph<L>, std::vector<std::string>> load(const std::string &p, F f) { return io::loadTextEdgeList<LabeledDirectedGraph, L>(p, f); }
    static std::pair<LabeledDirectedGraph<L>, std::vector<std::string>> loadDefault(const std::string &p) { return io::loadTextEdgeList<LabeledDirectedGraph, L>(p); }
    template <class F>
    static std::pair<LabeledDirectedGraph<L>, std::vector<std::string>> loadNames(const std::string &p, F f) { return io::loadTextVertexLabeledEdgeList<LabeledDirectedGraph, L>(p, f); }
    static std::pair<LabeledDirectedGraph<L>, std::vector<std::string>> loadNamesDefault(const std::string &p) { return io::loadTextVertexLabeledEdgeList<LabeledDirectedGraph, L>(p); }
};
template <class L>
struct IO<LabeledUndirectedGraph<L>> {
    template <class F>
    static void write(const LabeledUndirectedGraph<L> &g, const std::string &p, F f) { io::writeTextEdgeList<LabeledUndirectedGraph, L>(g, p, f); }
    static void writeNoLabel(const LabeledUndirectedGraph<L> &g, const std::string &p) { io::writeTextEdgeList(g, p); }
    template <class F>
    static std::pair<LabeledUndirectedGraph<L>, std::vector<std::string>> load(const std::string &p, F f) { return io::loadTextEdgeList<LabeledUndirectedGraph, L>(p, f); }
    static std::pair<LabeledUndirectedGraph<L>, std::vector<std::string>> loadDefault(const std::string &p) { return io::loadTextEdgeList<LabeledUndirectedGraph, L>(p); }
    template <class F>
    static std::pair<LabeledUndirectedGraph<L>, std::vector<std::string>> loadNames(const std::string &p, F f) { return io::loadTextVertexLabeledEdgeList<LabeledUndirectedGraph, L>(p, f); }
    static std::pair<LabeledUndirectedGraph<L>, std::vector<std::string>> loadNamesDefault(const std::string &p) { return io::loadTextVertexLabeledEdgeList<LabeledUndirectedGraph, L>(p); }
};

// ---------------------------------------------------------------- round trip
template <class G>
std::string roundTrip(const Case &c, std::string &observer, StepFacts &facts) {
    typedef GT<G> T;
    typedef typename T::Label L;
    GSpec s = parseGSpec(c, T::directed);
    if constexpr (std::is_same<L, std::string>::value)
        for (auto &e : s.edges) {
            long long x = (e.x < 0 ? -e.x : e.x) % LABEL_K;
            if (x == 1) // " " begins with a blank: not expressible in the format (separator run)
                e.x = 2;
        }
    if constexpr (std::is_same<L, char>::value)
        return "";
    G g(0);
    Model m;
    buildGraph(s, "int", g, m);
    std::string r = verifyBuilt(g, m, observer);
    if (!r.empty())
        return r;
    FileGuard fg{scratchFile(".txt")};
    if (long long pf = c.geti("prefill", 0)) { // the output path already holds a file: a writer replaces it
        std::ofstream old(fg.p, std::ios::trunc);
        for (long long k = 0; k < (pf == 1 ? 1 : pf == 2 ? 3 : (long long)m.e.size() + 4); ++k)
            old << (20 + k) << " " << (21 + k) << " 7\n";
        facts.tag("output_path_holds_a_file");
    }
    if constexpr (T::nolabel)
        IO<G>::writeNoLabel(g, fg.p);
    else
        IO<G>::write(g, fg.p, [](const L &l) { return TextCodec<L>::to(l); });
    std::pair<G, std::vector<std::string>> back = [&]() {
        if constexpr (T::nolabel)
            return IO<G>::loadDefault(fg.p);
        else
            return IO<G>::load(fg.p, [](const std::string &t) { return TextCodec<L>::from(t); });
    }();
    G &h = back.first;
    size_t expectSize = 0;
    bool loop = false, big = false;
    for (auto &p : m.e) {
        expectSize = std::max<size_t>(expectSize, std::max(p.first.first, p.first.second) + 1);
        loop |= p.first.first == p.first.second;
        big |= p.first.first > 9 || p.first.second > 9;
    }
    if (h.getSize() != expectSize) {
        observer = "roundtrip-size";
        return "reloaded graph has " + std::to_string(h.getSize()) + " vertices, expected 1+largest used index = " + std::to_string(expectSize);
    }
    h.resize(m.n);
    if (!(h == g) || !(g == h) || h != g) {
        observer = "roundtrip-equality";
        return "after resize to the original size the reloaded graph does not equal the original";
    }
    r = verifyBuilt(h, m, observer);
    if (!r.empty())
        return "reloaded graph: " + r;
    if (!T::nolabel && loop && big)
        facts.tag("labelled_loop_and_index_gt_9");
    if (m.e.size() >= 2)
        facts.tag("two_or_more_edges");
    return "";
}

// ---------------------------------------------------------------- files against the reference parser
template <class G>
std::string fileCheck(const Case &c, bool names, std::string &observer, StepFacts &facts, int &verdict) {
    typedef GT<G> T;
    typedef typename T::Label L;
    std::string text = hexDecode(c.get("file", "-"));
    RefParse ref = refParseText(text);
    if (!ref.wellFormed) {
        verdict = 2;
        return "not a well-formed file: " + ref.why;
    }
    // expected graph
    std::vector<std::string> nameTable;
    std::map<std::string, unsigned> nameIndex;
    struct E {
        unsigned i, j;
        std::string rest;
    };
    std::vector<E> edges;
    size_t n = 0;
    for (auto &rec : ref.records) {
        unsigned long a, b;
        if (names) {
            for (const std::string *t : {&rec.a, &rec.b})
                if (!nameIndex.count(*t)) {
                    nameIndex[*t] = (unsigned)nameTable.size();
                    nameTable.push_back(*t);
                }
            a = nameIndex[rec.a];
            b = nameIndex[rec.b];
        } else {
            if (!decimalIndex(rec.a, a, 200) || !decimalIndex(rec.b, b, 200)) {
                verdict = 2;
                return "index token outside the generated domain";
            }
        }
        n = std::max<size_t>(n, std::max(a, b) + 1);
        edges.push_back(E{(unsigned)a, (unsigned)b, rec.rest});
    }
    std::map<UPair, std::string> expect;
    for (auto &e : edges) {
        UPair k = (!T::directed && e.i > e.j) ? UPair(e.j, e.i) : UPair(e.i, e.j);
        if (expect.count(k)) {
            verdict = 2;
            return "repeated pair (outside the generated domain)";
        }
        expect[k] = e.rest;
    }
    if constexpr (std::is_same<L, int>::value)
        for (auto &e : edges) {
            unsigned long v;
            if (!decimalIndex(e.rest, v, 1000000)) {
                verdict = 2;
                return "label is not a decimal integer";
            }
        }
    FileGuard fg{scratchFile(".in")};
    {
        std::ofstream f(fg.p, std::ios::binary);
        f.write(text.data(), (std::streamsize)text.size());
    }
    std::pair<G, std::vector<std::string>> got = [&]() {
        if constexpr (T::nolabel)
            return names ? IO<G>::loadNamesDefault(fg.p) : IO<G>::loadDefault(fg.p);
        else {
            auto f = [](const std::string &t) { return TextCodec<L>::from(t); };
            return names ? IO<G>::loadNames(fg.p, f) : IO<G>::load(fg.p, f);
        }
    }();
    const G &g = got.first;
    std::string what = names ? "loadTextVertexLabeledEdgeList" : "loadTextEdgeList";
    if (g.getSize() != n) {
        observer = "load-size";
        return what + ": graph has " + std::to_string(g.getSize()) + " vertices expected " + std::to_string(n);
    }
    if (g.getEdgeNumber() != expect.size()) {
        observer = "load-count";
        return what + ": " + std::to_string(g.getEdgeNumber()) + " edges expected " + std::to_string(expect.size());
    }
    for (unsigned i = 0; i < n; ++i)
        for (unsigned j = 0; j < n; ++j) {
            UPair k = (!T::directed && i > j) ? UPair(j, i) : UPair(i, j);
            bool e = expect.count(k) != 0;
            if (g.hasEdge(i, j) != e) {
                observer = "load-edges";
                return what + ": edge (" + std::to_string(i) + "," + std::to_string(j) + ") " + (e ? "missing" : "invented");
            }
            if constexpr (!T::nolabel)
                if (e) {
                    L want = TextCodec<L>::from(expect[k]);
                    if (!(g.getEdgeLabel(i, j) == want)) {
                        observer = "load-labels";
                        return what + ": label of (" + std::to_string(i) + "," + std::to_string(j) + ") is not the rest of the line '" + expect[k] + "'";
                    }
                }
        }
    if (names) {
        const auto &tab = got.second;
        if (tab.size() != nameTable.size()) {
            observer = "name-table";
            return what + ": name table has " + std::to_string(tab.size()) + " entries expected " + std::to_string(nameTable.size());
        }
        for (size_t k = 0; k < tab.size(); ++k)
            if (tab[k] != nameTable[k]) {
                observer = "name-table";
                return what + ": names[" + std::to_string(k) + "] is '" + tab[k] + "' expected '" + nameTable[k] + "' (numbering in order of first appearance)";
            }
    }
    if (ref.commentLines >= 1 && (ref.linesWithTab || ref.linesWithLeadingBlank) && ref.labelsWithBlank && ref.records.size() >= 2)
        facts.tag("comments_tabs_blank_labels_two_edges");
    if (ref.commentLines)
        facts.tag("has_comment");
    if (ref.linesWithTab)
        facts.tag("has_tab");
    if (ref.linesWithLeadingBlank)
        facts.tag("has_leading_blank");
    if (ref.labelsWithBlank)
        facts.tag("label_with_blank");
    if (!text.empty() && text.back() != '\n')
        facts.tag("no_final_newline");
    return "";
}

// ---------------------------------------------------------------- arbitrary bytes offered as a text edge list (C15, C13 differential)
// what std::stoi would make of a token: 0 no conversion / out of int range (stoi throws), 1 value in v
int stoiValue(const std::string &t, long long &v) {
    size_t i = 0;
    bool neg = false;
    if (i < t.size() && (t[i] == '+' || t[i] == '-')) {
        neg = t[i] == '-';
        ++i;
    }
    if (i >= t.size() || t[i] < '0' || t[i] > '9')
        return 0;
    v = 0;
    for (; i < t.size() && t[i] >= '0' && t[i] <= '9'; ++i) {
        v = v * 10 + (t[i] - '0');
        if (v > 4000000000LL)
            return 0;
    }
    if (neg)
        v = -v;
    if (v > 2147483647LL || v < -2147483648LL)
        return 0;
    return 1;
}

template <class G>
std::string rawText(const Case &c, bool names, std::string &observer, StepFacts &facts, int &verdict) {
    typedef GT<G> T;
    typedef typename T::Label L;
    std::string text = hexDecode(c.get("file", "-"));
    // domain filter ("vertex indices kept small enough to allocate"), with the loader's own line/token rules
    if (!names) {
        size_t pos = 0;
        const std::string wsAll = " \t\n\r\f\v";
        while (pos < text.size()) {
            size_t e = text.find('\n', pos);
            if (e == std::string::npos)
                e = text.size();
            std::string line = text.substr(pos, e - pos);
            pos = e + 1;
            if (!line.empty() && line[0] == '#')
                continue;
            size_t p1 = line.find_first_not_of(wsAll);
            for (int k = 0; k < 2 && p1 != std::string::npos; ++k) {
                size_t p2 = line.find_first_of(wsAll, p1);
                std::string tok = line.substr(p1, p2 == std::string::npos ? std::string::npos : p2 - p1);
                long long v;
                if (stoiValue(tok, v) && (v > 65536 || v < -1)) {
                    verdict = 2;
                    return "index outside the allocatable domain";
                }
                if (stoiValue(tok, v) && v == -1)
                    facts.tag("index_minus_one");
                p1 = p2 == std::string::npos ? p2 : line.find_first_not_of(wsAll, p2);
            }
        }
    }
    FileGuard fg{scratchFile(".raw")};
    {
        std::ofstream f(fg.p, std::ios::binary);
        f.write(text.data(), (std::streamsize)text.size());
    }
    bool returned = false;
    try {
        if constexpr (T::nolabel) {
            auto got = names ? IO<G>::loadNamesDefault(fg.p) : IO<G>::loadDefault(fg.p);
            (void)got.first.getSize();
        } else {
            auto f = [](const std::string &t) { return TextCodec<L>::from(t); };
            auto got = names ? IO<G>::loadNames(fg.p, f) : IO<G>::load(fg.p, f);
            (void)got.first.getSize();
        }
        returned = true;
        facts.tag("loader_returned");
    } catch (const std::exception &) {
        facts.tag("loader_threw_std_exception");
    } catch (...) {
        observer = "non-std-exception";
        return "the loader threw something not derived from std::exception";
    }
    RefParse ref = refParseText(text);
    if (!ref.wellFormed && !ref.records.empty())
        facts.tag("rejected_and_accepted_lines");
    if (ref.wellFormed) {
        // well-formed per the documented grammar: the loader must agree with the reference parser
        int v2 = 1;
        std::string r = fileCheck<G>(c, names, observer, facts, v2);
        if (v2 == 2)
            return ""; // outside the differential's domain (repeated pair, non-decimal index, ...)
        if (!r.empty())
            return "well-formed input: " + r;
        if (!returned) {
            observer = "wellformed-rejected";
            return "a well-formed file was rejected by the loader";
        }
        facts.tag("differential_checked");
    }
    return "";
}

template <class G>
void run(const Case &c, verif_result *out) {
    std::string cls = c.get("class") + ":" + c.get("label", "none");
    std::string mode = c.get("mode", "roundtrip");
    StepFacts facts;
    std::string observer, r;
    int verdict = 1;
    try {
        if (mode == "roundtrip")
            r = roundTrip<G>(c, observer, facts);
        else if (mode == "rawindex" || mode == "rawname")
            r = rawText<G>(c, mode == "rawname", observer, facts, verdict);
        else
            r = fileCheck<G>(c, mode == "namefile", observer, facts, verdict);
    } catch (const std::exception &ex) {
        observer = "exception";
        r = std::string("unexpected exception ") + typeid(ex).name() + ": " + ex.what();
    }
    if (!r.empty()) {
        if (verdict == 2) {
            fillResult(out, 2, false, 0, "", "", r);
            return;
        }
        fillResult(out, 1, false, 0, cls + "|" + mode + "|" + observer, joinTags(facts), "property " + c.get("prop", "C13") + " class " + cls + " (" + mode + "): " + r);
        return;
    }
    bool nt = facts.tags.count("labelled_loop_and_index_gt_9") || facts.tags.count("comments_tabs_blank_labels_two_edges") || facts.tags.count("rejected_and_accepted_lines");
    fillResult(out, 0, nt, 0, "", joinTags(facts) + " mode_" + mode, "");
}

} // namespace

#if TX_GROUP == 0
VERIF_REGISTER(DS_none, DirectedGraph) VERIF_REGISTER(US_none, UndirectedGraph)
#elif TX_GROUP == 1
VERIF_REGISTER(DL_int, LabeledDirectedGraph<int>) VERIF_REGISTER(UL_int, LabeledUndirectedGraph<int>)
#elif TX_GROUP == 2
VERIF_REGISTER(DL_string, LabeledDirectedGraph<std::string>) VERIF_REGISTER(UL_string, LabeledUndirectedGraph<std::string>)
#elif TX_GROUP == 3
VERIF_REGISTER(DL_double, LabeledDirectedGraph<double>) VERIF_REGISTER(UL_double, LabeledUndirectedGraph<double>)
#elif TX_GROUP == 4
VERIF_REGISTER(DL_struct, LabeledDirectedGraph<Tag>) VERIF_REGISTER(UL_struct, LabeledUndirectedGraph<Tag>)
#else
#error "TX_GROUP must be 0..4"
#endif

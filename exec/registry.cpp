// Generic C entry point: parses the case and dispatches on "<class>_<label>".
// Built with -DVERIF_EXEC_NAME="\"...\"".
#include "registry.hpp"
#include <cstdio>
#include <cstring>
#include <stdexcept>
#include <typeinfo>

namespace verif {
std::map<std::string, RunFn> &registry() {
    static std::map<std::string, RunFn> r;
    return r;
}
} // namespace verif

using namespace verif;

#ifndef VERIF_EXEC_NAME
#define VERIF_EXEC_NAME "executor"
#endif

static void fill(verif_result *out, int verdict, const std::string &key, const std::string &msg) {
    out->verdict = verdict;
    std::snprintf(out->key, sizeof out->key, "%s", key.c_str());
    std::snprintf(out->message, sizeof out->message, "%s", msg.c_str());
}

extern "C" const char *verif_executor_name(void) { return VERIF_EXEC_NAME; }

extern "C" int verif_run_case(const char *text, size_t len, verif_result *out) {
    std::memset(out, 0, sizeof *out);
    Case c;
    std::string err;
    try {
        if (!parseCase(text, len, c, err)) {
            fill(out, 2, "", "parse error: " + err);
            return 2;
        }
        std::string name = c.get("class", "DS") + "_" + c.get("label", "none");
        auto it = registry().find(name);
        if (it == registry().end())
            it = registry().find("*");
        if (it == registry().end()) {
            fill(out, 2, "", "unknown class/label " + name);
            return 2;
        }
        it->second(c, out);
    } catch (const std::exception &ex) {
        fill(out, 1, std::string("harness|uncaught|") + typeid(ex).name(), std::string("uncaught exception: ") + ex.what());
    } catch (...) {
        fill(out, 1, "harness|uncaught|unknown", "uncaught non-std exception");
    }
    return out->verdict;
}

/* C ABI between front-ends (generators, enumerators, fuzzers, replay) and
 * executors (the only code that includes BaseGraph headers).  No std:: type
 * crosses this boundary, so an executor may be built with any sanitizer,
 * -D_GLIBCXX_DEBUG, either compiler, and still link with front-end objects
 * that were built once in plain mode. */
#ifndef VERIF_ABI_H
#define VERIF_ABI_H
#include <stddef.h>
#ifdef __cplusplus
extern "C" {
#endif

typedef struct verif_result {
    int verdict;                /* 0 pass, 1 property violated, 2 case not applicable / unparsable */
    int nontrivial;             /* 1 when the case is non-trivial by the property's stated rule */
    unsigned long long digest;  /* digest of everything observed (exact snapshots) */
    unsigned long long work;    /* executor specific (e.g. neighbourhood scans) */
    char key[256];              /* finding key: class|op kind|observer */
    char tags[1024];            /* space separated class tags for distribution counters */
    char message[8192];         /* human readable failure description */
} verif_result;

/* Runs one case (text, see harness/case.hpp). Never throws. */
int verif_run_case(const char *text, size_t len, verif_result *out);

/* Name of the executor and the properties it serves (informational). */
const char *verif_executor_name(void);

#ifdef __cplusplus
}
#endif
#endif

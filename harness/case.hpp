// Case text format shared by every front-end and executor.  Plain C++ only.
//
//   prop C03
//   class UL              (any "key value" line)
//   n0 3
//   op add 5 1 0 7 0      ("op" [@k] kind args...)
//   # comment
#ifndef VERIF_CASE_HPP
#define VERIF_CASE_HPP
#include <cstdint>
#include <cstdlib>
#include <cstring>
#include <map>
#include <sstream>
#include <string>
#include <vector>

namespace verif {

struct Op {
    int target = 0; // graph the op applies to (C06 uses two)
    std::string kind;
    std::vector<std::string> a;

    long long i(size_t k, long long dflt = 0) const {
        if (k >= a.size())
            return dflt;
        return std::strtoll(a[k].c_str(), nullptr, 10);
    }
    unsigned long long u(size_t k, unsigned long long dflt = 0) const {
        if (k >= a.size())
            return dflt;
        return std::strtoull(a[k].c_str(), nullptr, 10);
    }
    double d(size_t k, double dflt = 0) const {
        if (k >= a.size())
            return dflt;
        return std::strtod(a[k].c_str(), nullptr);
    }
    std::string text() const {
        std::string s = "op ";
        if (target != 0)
            s += "@" + std::to_string(target) + " ";
        s += kind;
        for (auto &x : a)
            s += " " + x;
        return s;
    }
};

struct Case {
    std::vector<std::pair<std::string, std::string>> kv; // ordered
    std::vector<Op> ops;

    std::string get(const std::string &k, const std::string &dflt = "") const {
        for (auto &p : kv)
            if (p.first == k)
                return p.second;
        return dflt;
    }
    long long geti(const std::string &k, long long dflt = 0) const {
        std::string v = get(k, "");
        if (v.empty())
            return dflt;
        return std::strtoll(v.c_str(), nullptr, 10);
    }
    void set(const std::string &k, const std::string &v) {
        for (auto &p : kv)
            if (p.first == k) {
                p.second = v;
                return;
            }
        kv.emplace_back(k, v);
    }
    std::string text() const {
        std::string s;
        for (auto &p : kv)
            s += p.first + " " + p.second + "\n";
        for (auto &o : ops)
            s += o.text() + "\n";
        return s;
    }
};

inline bool parseCase(const char *text, size_t len, Case &c, std::string &err) {
    c = Case();
    size_t pos = 0;
    while (pos < len) {
        size_t e = pos;
        while (e < len && text[e] != '\n')
            ++e;
        std::string line(text + pos, e - pos);
        pos = e + 1;
        // tokenise on blanks
        std::vector<std::string> tok;
        {
            size_t i = 0;
            while (i < line.size()) {
                while (i < line.size() && (line[i] == ' ' || line[i] == '\t' || line[i] == '\r'))
                    ++i;
                size_t j = i;
                while (j < line.size() && !(line[j] == ' ' || line[j] == '\t' || line[j] == '\r'))
                    ++j;
                if (j > i)
                    tok.emplace_back(line.substr(i, j - i));
                i = j;
            }
        }
        if (tok.empty() || tok[0][0] == '#')
            continue;
        if (tok[0] == "op") {
            Op o;
            size_t k = 1;
            if (k < tok.size() && tok[k][0] == '@') {
                o.target = std::atoi(tok[k].c_str() + 1);
                ++k;
            }
            if (k >= tok.size()) {
                err = "op without kind";
                return false;
            }
            o.kind = tok[k++];
            for (; k < tok.size(); ++k)
                o.a.push_back(tok[k]);
            c.ops.push_back(std::move(o));
        } else {
            std::string v;
            for (size_t k = 1; k < tok.size(); ++k) {
                if (k > 1)
                    v += " ";
                v += tok[k];
            }
            c.kv.emplace_back(tok[0], v);
        }
    }
    return true;
}

// FNV-1a 64
inline uint64_t fnv1a(const void *data, size_t len, uint64_t h = 1469598103934665603ULL) {
    const unsigned char *p = static_cast<const unsigned char *>(data);
    for (size_t i = 0; i < len; ++i) {
        h ^= p[i];
        h *= 1099511628211ULL;
    }
    return h;
}
inline uint64_t fnv1a(const std::string &s, uint64_t h = 1469598103934665603ULL) {
    return fnv1a(s.data(), s.size(), h);
}

} // namespace verif
#endif

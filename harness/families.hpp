// Adversarial graph families for the work bounds (C19): many shortest paths,
// zero-weight cycles.  Produces an edge list; plain C++.
#ifndef VERIF_FAMILIES_HPP
#define VERIF_FAMILIES_HPP
#include <string>
#include <vector>

namespace verif {

struct FamEdge {
    unsigned i, j;
    double w = -1; // explicit weight (>= 0) for the weighted families, -1: decided by the case's weight mode
};

// returns number of vertices; fills edges (directed orientation "forward")
inline size_t familyEdges(const std::string &fam, long long a, long long b, std::vector<FamEdge> &out) {
    out.clear();
    auto clamp = [](long long v, long long lo, long long hi) { return v < lo ? lo : v > hi ? hi : v; };
    if (fam == "layered") {
        size_t w = (size_t)clamp(a, 1, 6), d = (size_t)clamp(b, 1, 60);
        size_t n = 2 + w * d;
        auto id = [&](size_t layer, size_t k) { return (unsigned)(1 + layer * w + k); };
        for (size_t k = 0; k < w; ++k)
            out.push_back({0u, id(0, k)});
        for (size_t l = 0; l + 1 < d; ++l)
            for (size_t x = 0; x < w; ++x)
                for (size_t y = 0; y < w; ++y)
                    out.push_back({id(l, x), id(l + 1, y)});
        for (size_t k = 0; k < w; ++k)
            out.push_back({id(d - 1, k), (unsigned)(n - 1)});
        return n;
    }
    if (fam == "grid") {
        size_t r = (size_t)clamp(a, 1, 12), c = (size_t)clamp(b, 1, 12);
        auto id = [&](size_t i, size_t j) { return (unsigned)(i * c + j); };
        for (size_t i = 0; i < r; ++i)
            for (size_t j = 0; j < c; ++j) {
                if (i + 1 < r)
                    out.push_back({id(i, j), id(i + 1, j)});
                if (j + 1 < c)
                    out.push_back({id(i, j), id(i, j + 1)});
            }
        return r * c;
    }
    if (fam == "cdag") {
        size_t n = (size_t)clamp(a, 1, 40);
        for (unsigned i = 0; i < n; ++i)
            for (unsigned j = i + 1; j < n; ++j)
                out.push_back({i, j});
        return n;
    }
    if (fam == "ladder") {
        size_t k = (size_t)clamp(a, 1, 60);
        for (unsigned i = 0; i < k; ++i) {
            out.push_back({2 * i, 2 * i + 1});
            out.push_back({2 * i + 1, 2 * i});
            if (i + 1 < k) {
                out.push_back({2 * i, 2 * i + 2});
                out.push_back({2 * i + 2, 2 * i});
                out.push_back({2 * i + 1, 2 * i + 3});
                out.push_back({2 * i + 3, 2 * i + 1});
            }
        }
        return 2 * k;
    }
    if (fam == "diamonds") { // chain of b diamonds of width a: (width)^b shortest paths with few vertices
        size_t w = (size_t)clamp(a, 2, 6), d = (size_t)clamp(b, 1, 40);
        unsigned cur = 0, next = 1;
        for (size_t k = 0; k < d; ++k) {
            unsigned join = next + (unsigned)w;
            for (size_t x = 0; x < w; ++x) {
                out.push_back({cur, next + (unsigned)x});
                out.push_back({next + (unsigned)x, join});
            }
            cur = join;
            next = join + 1;
        }
        return next;
    }
    if (fam == "fanin") {
        // a hub that is improved a times before it is settled, with fan-out b; non-dyadic weights.
        // source 0 -> a_i (weight i*d) -> hub (weight W - 2*i*d): the hub's tentative distance drops a times while
        // stale copies of it wait in the queue; every stale scan of a correct search relaxes nothing.
        size_t m = (size_t)clamp(a, 1, 24), L = (size_t)clamp(b, 1, 48);
        const double d = 0.013, W = 10.1;
        unsigned hub = (unsigned)(m + 1);
        out.push_back({0u, hub, W});
        for (unsigned i = 1; i <= m; ++i) {
            out.push_back({0u, i, i * d});
            out.push_back({i, hub, W - 2.0 * i * d});
        }
        for (unsigned j = 0; j < L; ++j)
            out.push_back({hub, (unsigned)(m + 2 + j), 0.1 * (j + 1) + 0.007});
        return m + 2 + L;
    }
    if (fam == "looppath") { // path with a self-loop on every vertex (both directions)
        size_t n = (size_t)clamp(a, 2, 150);
        for (unsigned i = 0; i < n; ++i) {
            out.push_back({i, i});
            if (i + 1 < n) {
                out.push_back({i, i + 1});
                out.push_back({i + 1, i});
            }
        }
        return n;
    }
    if (fam == "tristrip") { // strip of triangles: i~i+1, i~i+2 (odd cycles, many same-layer edges)
        size_t n = (size_t)clamp(a, 3, 150);
        for (unsigned i = 0; i < n; ++i)
            for (unsigned d = 1; d <= 2; ++d)
                if (i + d < n) {
                    out.push_back({i, i + d});
                    out.push_back({i + d, i});
                }
        return n;
    }
    if (fam == "cliquechain") { // b cliques of size a joined in a chain by single edges
        size_t k = (size_t)clamp(a, 2, 6), m = (size_t)clamp(b, 1, 30);
        for (size_t c = 0; c < m; ++c) {
            for (size_t x = 0; x < k; ++x)
                for (size_t y = 0; y < k; ++y)
                    if (x != y)
                        out.push_back({(unsigned)(c * k + x), (unsigned)(c * k + y)});
            if (c + 1 < m) {
                out.push_back({(unsigned)(c * k + k - 1), (unsigned)((c + 1) * k)});
                out.push_back({(unsigned)((c + 1) * k), (unsigned)(c * k + k - 1)});
            }
        }
        return k * m;
    }
    return 0;
}

} // namespace verif
#endif

// Runs a case in a forked child: a process image in which the parent never executed the entry points under test
// (a job whose cases all run this way keeps the parent clean), so that "the first call of this kind in the process /
// thread" is what the case exercises.  The child's verif_result comes back through a pipe.
#ifndef VERIF_FORKED_HPP
#define VERIF_FORKED_HPP
#include "abi.h"
#include <cstdio>
#include <cstring>
#include <sstream>
#include <string>
#include <fstream>
#include <poll.h>
#include <signal.h>
#include <sys/prctl.h>
#include <sys/types.h>
#include <sys/wait.h>
#include <unistd.h>

namespace verif {

// returns true when the child delivered a result; otherwise `how` says how it ended
template <class F>
bool runForked(F inner, verif_result *out, std::string &how, int *exitStatus = nullptr) {
    int fds[2];
    if (::pipe(fds) != 0) {
        inner(out);
        return true;
    }
    std::fflush(nullptr);
    pid_t pid = ::fork();
    if (pid == 0) {
        ::prctl(PR_SET_PDEATHSIG, SIGKILL); // never outlive the parent (which a time-out of the runner may kill)
        ::close(fds[0]);
        static verif_result local;
        std::memset(&local, 0, sizeof local);
        inner(&local);
        size_t off = 0;
        const char *p = reinterpret_cast<const char *>(&local);
        while (off < sizeof local) {
            ssize_t w = ::write(fds[1], p + off, sizeof local - off);
            if (w <= 0)
                break;
            off += (size_t)w;
        }
        ::close(fds[1]);
        ::_exit(0);
    }
    ::close(fds[1]);
    static verif_result got;
    size_t off = 0;
    char *p = reinterpret_cast<char *>(&got);
    // watchdog: the sanitizer's own memory limit does not work in a forked child (its monitor thread is not forked), so the parent
    // watches the child: more than 4 GB resident or 300 s of CPU time on one small case is a runaway computation, and the child is killed
    std::string killedWhy;
    long pageKb = ::sysconf(_SC_PAGESIZE) / 1024, tick = ::sysconf(_SC_CLK_TCK);
    while (off < sizeof got) {
        struct pollfd pf = {fds[0], POLLIN, 0};
        int pr = ::poll(&pf, 1, 200);
        if (pr > 0) {
            ssize_t r = ::read(fds[0], p + off, sizeof got - off);
            if (r <= 0)
                break;
            off += (size_t)r;
            continue;
        }
        if (pr < 0)
            continue;
        long rssPages = 0, dummy = 0;
        std::ifstream sm("/proc/" + std::to_string(pid) + "/statm");
        sm >> dummy >> rssPages;
        std::ifstream st("/proc/" + std::to_string(pid) + "/stat");
        std::string line;
        std::getline(st, line);
        unsigned long ut = 0, stt = 0;
        size_t rp = line.rfind(')');
        if (rp != std::string::npos) {
            std::istringstream is(line.substr(rp + 2));
            std::string tok;
            for (int k = 0; k < 11 && (is >> tok); ++k) {
            }
            is >> ut >> stt;
        }
        if (rssPages * pageKb > 4L * 1024 * 1024)
            killedWhy = "used more than 4 GB of memory";
        else if (tick > 0 && (long)((ut + stt) / (unsigned long)tick) > 300)
            killedWhy = "used more than 300 s of CPU time";
        if (!killedWhy.empty()) {
            ::kill(pid, SIGKILL);
            break;
        }
    }
    ::close(fds[0]);
    int status = 0;
    ::waitpid(pid, &status, 0);
    if (!killedWhy.empty()) {
        how = "runaway computation: the child " + killedWhy + " on this case and was stopped";
        if (exitStatus)
            *exitStatus = status;
        return false;
    }
    if (exitStatus)
        *exitStatus = status;
    if (off == sizeof got && WIFEXITED(status) && WEXITSTATUS(status) == 0) {
        *out = got;
        return true;
    }
    how = WIFSIGNALED(status) ? "killed by signal " + std::to_string(WTERMSIG(status)) : "exit status " + std::to_string(WEXITSTATUS(status));
    return false;
}

} // namespace verif
#endif

// Graph-shaped cases (C08-C12, C14, C19): a graph given either by an edge mask
// over all pairs (exhaustive enumeration) or by explicit `op e i j x` lines
// (generated), built in a stated insertion order.  Needs hist.hpp.
//
//   n 4                 vertices of the core graph
//   mask 1a3f           hex bitmask: directed bit i*n+j, undirected pairs (i<=j) in lexicographic order
//   order 3             insertion-order variant for the masked edges (0 identity, 1 reverse, 2.. keyed shuffles)
//   pad_front 1         isolated vertices in front (indices shifted)
//   pad_back 2          isolated vertices appended by resize after building
//   op e i j x          edge (i,j mod n) with value index x, in insertion order
#ifndef VERIF_GCASE_HPP
#define VERIF_GCASE_HPP
#include "hist.hpp"

namespace verif {

struct GEdge {
    unsigned i, j;
    long long x;
    bool remove = false; // `op r i j`: removeEdge(i, j) at this point of the construction (graphs with a removal history)
    bool set = false;    // `op w i j x`: setEdgeWeight / setEdgeMultiplicity(i, j, value) (creates or updates), setEdgeLabel on a present edge
    bool force = false;  // `op f i j x`: addEdge(..., force=true): a duplicate entry in the neighbour lists (labelled classes)
};

struct GSpec {
    size_t n = 0, padFront = 0, padBack = 0;
    std::vector<GEdge> edges; // insertion order, indices already shifted by padFront
    size_t total() const { return n + padFront + padBack; }
};

inline std::vector<UPair> allPairs(size_t n, bool directed) {
    std::vector<UPair> p;
    for (unsigned i = 0; i < n; ++i)
        for (unsigned j = directed ? 0 : i; j < n; ++j)
            p.emplace_back(i, j);
    return p;
}

inline bool maskBit(const std::string &hex, size_t bit) {
    // hex string, least significant nibble last
    size_t nib = bit / 4;
    if (nib >= hex.size())
        return false;
    char c = hex[hex.size() - 1 - nib];
    int v = (c >= '0' && c <= '9') ? c - '0' : (c >= 'a' && c <= 'f') ? c - 'a' + 10 : (c >= 'A' && c <= 'F') ? c - 'A' + 10 : 0;
    return (v >> (bit % 4)) & 1;
}

inline GSpec parseGSpec(const Case &c, bool directed) {
    GSpec s;
    s.n = (size_t)std::min<long long>(200, std::max<long long>(0, c.geti("n", 0)));
    s.padFront = (size_t)std::min<long long>(4, std::max<long long>(0, c.geti("pad_front", 0)));
    s.padBack = (size_t)std::min<long long>(4, std::max<long long>(0, c.geti("pad_back", 0)));
    std::string mask = c.get("mask", "");
    long long order = c.geti("order", 0);
    long long vbase = c.geti("vbase", 1);
    if (!mask.empty() && s.n > 0) {
        auto pairs = allPairs(s.n, directed);
        std::vector<std::pair<long long, GEdge>> es;
        for (size_t b = 0; b < pairs.size(); ++b)
            if (maskBit(mask, b)) {
                GEdge e{pairs[b].first, pairs[b].second, (long long)((vbase + 3 * b) % 11 + 1)};
                long long key;
                switch (order) {
                case 0: key = (long long)b; break;
                case 1: key = -(long long)b; break;
                default: key = (long long)((b * (2 * order + 1) * 7 + order * 13) % 17) * 64 + (long long)b; break;
                }
                // orientation in which an undirected pair is named
                if (!directed && ((b + order) % 3 == 1))
                    std::swap(e.i, e.j);
                es.emplace_back(key, e);
            }
        std::stable_sort(es.begin(), es.end(), [](const auto &a, const auto &b) { return a.first < b.first; });
        for (auto &p : es)
            s.edges.push_back(p.second);
    }
    // w4: one base-4 digit per pair (canonical order): 0 absent, d>0 -> value index d-1
    std::string w4 = c.get("w4", "");
    if (!w4.empty() && s.n > 0) {
        auto pairs = allPairs(s.n, directed);
        std::vector<std::pair<long long, GEdge>> es;
        for (size_t b = 0; b < pairs.size() && b < w4.size(); ++b) {
            int d = w4[b] - '0';
            if (d <= 0 || d > 3)
                continue;
            GEdge e{pairs[b].first, pairs[b].second, (long long)(d - 1)};
            long long key = order == 0 ? (long long)b : order == 1 ? -(long long)b : (long long)((b * (2 * order + 1) * 7 + order * 13) % 17) * 64 + (long long)b;
            if (!directed && ((b + order) % 3 == 1))
                std::swap(e.i, e.j);
            es.emplace_back(key, e);
        }
        std::stable_sort(es.begin(), es.end(), [](const auto &a, const auto &b) { return a.first < b.first; });
        for (auto &p : es)
            s.edges.push_back(p.second);
    }
    for (const Op &op : c.ops) {
        if (op.kind == "e" && s.n > 0)
            s.edges.push_back(GEdge{(unsigned)(op.u(0) % s.n), (unsigned)(op.u(1) % s.n), op.i(2)});
        if (op.kind == "f" && s.n > 0) {
            GEdge f{(unsigned)(op.u(0) % s.n), (unsigned)(op.u(1) % s.n), op.i(2)};
            f.force = true;
            s.edges.push_back(f);
        }
        // `op hub c lo cnt x`: the edges (c, lo), (c, lo+1), ... (cnt of them, modulo n; c itself gives a self-loop): a vertex of large degree
        if (op.kind == "hub" && s.n > 0)
            for (unsigned long long k = 0; k < op.u(2) && k < s.n; ++k)
                s.edges.push_back(GEdge{(unsigned)(op.u(0) % s.n), (unsigned)((op.u(1) + k) % s.n), op.i(3) + (long long)(k % 5)});
        // `op ring d x`: every vertex i joined to i+1 .. i+d (modulo n): thousands of edges
        if (op.kind == "ring" && s.n > 0)
            for (unsigned long long k = 1; k <= op.u(0) && k < s.n; ++k)
                for (unsigned i = 0; i < s.n; ++i)
                    s.edges.push_back(GEdge{i, (unsigned)((i + k) % s.n), op.i(1) + (long long)((i + k) % 7)});
        if (op.kind == "w" && s.n > 0) {
            GEdge w{(unsigned)(op.u(0) % s.n), (unsigned)(op.u(1) % s.n), op.i(2)};
            w.set = true;
            s.edges.push_back(w);
        }
        if (op.kind == "r" && s.n > 0) {
            GEdge r{(unsigned)(op.u(0) % s.n), (unsigned)(op.u(1) % s.n), 0};
            r.remove = true;
            s.edges.push_back(r);
        }
    }
    for (auto &e : s.edges) {
        e.i += (unsigned)s.padFront;
        e.j += (unsigned)s.padFront;
    }
    return s;
}

// weight of value index x: exactly representable, non-negative, small alphabet incl. 0
inline double weightOf(long long x, const std::string &mode) {
    if (x < 0)
        x = -x;
    if (mode == "abs012") // enumeration alphabet {0,1,2}
        return (double)(x % 3);
    if (mode == "int")
        return (double)(x % 17);
    if (mode == "frac")
        return (double)(x % 4096) / 8.0;
    if (mode == "tiny") // all weights and path sums far below machine epsilon, still exactly representable
        return std::ldexp((double)(x % 17), -60);
    if (mode == "huge")
        return std::ldexp((double)(x % 17), 40);
    return (double)(x % 17);
}

// Builds graph and model from a spec with unforced, documented calls.
template <class G>
void buildGraph(const GSpec &s, const std::string &wmode, G &g, Model &m) {
    typedef GT<G> T;
    m = Model();
    m.directed = T::directed;
    m.fam = T::fam;
    m.nolabel = T::nolabel;
    g = G(s.n + s.padFront);
    m.n = s.n + s.padFront;
    for (const GEdge &e : s.edges) {
        UPair k = m.key(e.i, e.j);
        bool present = m.e.count(k) != 0;
        long long x = e.x < 0 ? -e.x : e.x;
        if (e.remove) {
            ++m.opsHistory;
            if constexpr (T::fam == 'M')
                g.removeMultiedge(e.i, e.j, 1000000u);
            else
                g.removeEdge(e.i, e.j);
            m.e.erase(k);
            continue;
        }
        if (e.set) {
            // value set through the setter, in the orientation given
            if constexpr (T::fam == 'W') {
                double w = weightOf(x, wmode);
                m.absHistory += std::fabs((long double)w);
                ++m.opsHistory;
                g.setEdgeWeight(e.i, e.j, w);
                if (!present) {
                    MVal v;
                    v.copies = 1;
                    m.e[k] = v;
                }
                m.e[k].w = w;
            } else if constexpr (T::fam == 'M') {
                unsigned mult = (unsigned)(1 + x % 3);
                if (present && m.e[k].copies > 1)
                    continue;
                g.setEdgeMultiplicity(e.i, e.j, mult);
                if (!present) {
                    MVal v;
                    v.copies = 1;
                    m.e[k] = v;
                }
                m.e[k].k = mult;
            } else if constexpr (!T::nolabel) {
                if (present) {
                    long long lab = x % LABEL_K;
                    g.setEdgeLabel(e.i, e.j, LabelCodec<typename T::Label>::mk((int)lab));
                    m.e[k].k = lab;
                }
            }
            continue;
        }
        if constexpr (T::fam == 'L') {
            long long lab = T::nolabel ? 0 : x % LABEL_K;
            if (e.force && present) {
                g.addEdge(e.i, e.j, LabelCodec<typename T::Label>::mk((int)lab), true);
                m.e[k].copies++;
                m.e[k].k = lab;
                continue;
            }
            g.addEdge(e.i, e.j, LabelCodec<typename T::Label>::mk((int)lab));
            if (!present) {
                MVal v;
                v.copies = 1;
                v.k = lab;
                v.ci = e.i;
                v.cj = e.j;
                m.e[k] = v;
            }
        } else if constexpr (T::fam == 'M') {
            unsigned mult = (unsigned)(1 + x % 3);
            g.addMultiedge(e.i, e.j, mult);
            if (!present) {
                MVal v;
                v.copies = 1;
                v.k = mult;
                m.e[k] = v;
            } else
                m.e[k].k += mult;
        } else {
            double w = weightOf(x, wmode);
            m.absHistory += std::fabs((long double)w);
            ++m.opsHistory;
            g.addEdge(e.i, e.j, w);
            if (!present) {
                MVal v;
                v.copies = 1;
                v.w = w;
                m.e[k] = v;
            }
        }
    }
    if (s.padBack) {
        g.resize(m.n + s.padBack);
        m.n += s.padBack;
    }
}

// full observer comparison of a built graph with its model
template <class G>
std::string verifyBuilt(const G &g, const Model &m, std::string &observer, std::string *exactOut = nullptr, bool exactWeights = true) {
    Obs got, exp;
    try {
        observe(g, got);
    } catch (const std::exception &ex) {
        observer = "observer-threw";
        return std::string("an observer threw ") + typeid(ex).name() + ": " + ex.what();
    }
    expectedObs(m, exp, ExpectOptions());
    CmpOptions c;
    c.directed = m.directed;
    c.fam = m.fam;
    c.exactWeights = exactWeights;
    if (!exactWeights) {
        long double sum = m.absHistory;
        for (auto &p : m.e)
            sum += std::fabs((long double)p.second.w);
        c.weightTol = (long double)(m.e.size() + m.opsHistory + 1) * std::ldexp(1.0L, -50) * (1.0L + sum);
    }
    if (exactOut)
        *exactOut = obsText(got, true, m.directed);
    return compareObs(got, exp, c, observer);
}

} // namespace verif
#endif

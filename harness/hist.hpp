// History engine: drives a real BaseGraph object and an independent reference
// model through the same operation sequence and compares every public observer
// after every step.  Included by executors only (needs BaseGraph headers).
#ifndef VERIF_HIST_HPP
#define VERIF_HIST_HPP

#include "BaseGraph/directed_graph.hpp"
#include "BaseGraph/directed_multigraph.hpp"
#include "BaseGraph/directed_weighted_graph.hpp"
#include "BaseGraph/undirected_graph.hpp"
#include "BaseGraph/undirected_multigraph.hpp"
#include "BaseGraph/undirected_weighted_graph.hpp"

#include "abi.h"
#include "case.hpp"
#include "labels.hpp"

#include <algorithm>
#include <cmath>
#include <cstdio>
#include <deque>
#include <list>
#include <map>
#include <set>
#include <stdexcept>
#include <string>
#include <typeinfo>
#include <vector>

namespace verif {

using BaseGraph::VertexIndex;
typedef std::pair<unsigned, unsigned> UPair;

// ---------------------------------------------------------------- labels
template <>
struct LabelCodec<BaseGraph::NoLabel> {
    static const char *name() { return "none"; }
    static BaseGraph::NoLabel mk(int) { return BaseGraph::NoLabel(); }
};
template <>
inline int labelIndex<BaseGraph::NoLabel>(const BaseGraph::NoLabel &) {
    return 0;
}

// ---------------------------------------------------------------- traits
template <class G>
struct GT;
template <class L>
struct GT<BaseGraph::LabeledDirectedGraph<L>> {
    static constexpr bool directed = true;
    static constexpr char fam = 'L';
    typedef L Label;
    static constexpr bool nolabel = std::is_same<L, BaseGraph::NoLabel>::value;
};
template <class L>
struct GT<BaseGraph::LabeledUndirectedGraph<L>> {
    static constexpr bool directed = false;
    static constexpr char fam = 'L';
    typedef L Label;
    static constexpr bool nolabel = std::is_same<L, BaseGraph::NoLabel>::value;
};
template <>
struct GT<BaseGraph::DirectedMultigraph> {
    static constexpr bool directed = true;
    static constexpr char fam = 'M';
    typedef unsigned Label;
    static constexpr bool nolabel = false;
};
template <>
struct GT<BaseGraph::UndirectedMultigraph> {
    static constexpr bool directed = false;
    static constexpr char fam = 'M';
    typedef unsigned Label;
    static constexpr bool nolabel = false;
};
template <>
struct GT<BaseGraph::DirectedWeightedGraph> {
    static constexpr bool directed = true;
    static constexpr char fam = 'W';
    typedef double Label;
    static constexpr bool nolabel = false;
};
template <>
struct GT<BaseGraph::UndirectedWeightedGraph> {
    static constexpr bool directed = false;
    static constexpr char fam = 'W';
    typedef double Label;
    static constexpr bool nolabel = false;
};

// ---------------------------------------------------------------- model
struct MVal {
    unsigned copies = 0;
    long long k = 0; // label index (L) or multiplicity (M)
    double w = 0;    // weight (W)
    unsigned ci = 0, cj = 0; // orientation in which the pair was created
};

struct Model {
    bool directed = true;
    char fam = 'L';
    bool nolabel = false;
    bool singleLabel = false; // label type with a single value (empty struct): every label equals every other
    size_t n = 0;
    std::map<UPair, MVal> e;
    // graph-shaped cases: sum of |w| over every weight ever applied while the graph was built, and the number of such
    // applications (the rounding error of a running total scales with the history, not with what is left)
    long double absHistory = 0;
    size_t opsHistory = 0;

    UPair key(unsigned i, unsigned j) const {
        if (!directed && i > j)
            return UPair(j, i);
        return UPair(i, j);
    }
    bool has(unsigned i, unsigned j) const { return e.count(key(i, j)) != 0; }
    const MVal *find(unsigned i, unsigned j) const {
        auto it = e.find(key(i, j));
        return it == e.end() ? nullptr : &it->second;
    }
    bool anyDup() const {
        for (auto &p : e)
            if (p.second.copies > 1)
                return true;
        return false;
    }
    // value equality of two models (what operator== must decide)
    bool sameValue(const Model &o) const {
        if (n != o.n || e.size() != o.e.size())
            return false;
        auto a = e.begin();
        auto b = o.e.begin();
        for (; a != e.end(); ++a, ++b) {
            if (a->first != b->first)
                return false;
            if (a->second.copies != b->second.copies)
                return false;
            if (fam == 'W') {
                if (!(a->second.w == b->second.w))
                    return false;
            } else if (!nolabel) {
                if (a->second.k != b->second.k)
                    return false;
            }
        }
        return true;
    }
};

// ---------------------------------------------------------------- observation
typedef std::vector<std::vector<size_t>> Mat;

struct Obs {
    size_t n = 0, edgeNumber = 0;
    bool hasTotalCount = false;
    size_t totalCount = 0; // multigraph
    bool hasTotalW = false;
    long double totalW = 0; // weighted
    std::vector<std::vector<unsigned>> nb;
    std::vector<std::vector<int>> has;
    std::vector<std::vector<std::string>> val, valnt;
    std::vector<std::vector<std::string>> hasl; // set of label indices for which hasEdge(i,j,l) is true
    std::vector<size_t> dA, dB, dAv, dBv; // directed: out,in ; undirected: deg(twice), deg(once)
    Mat adj, adj1;
    std::vector<std::vector<std::string>> wm;
    std::vector<UPair> edges;
    std::vector<unsigned> vertices;
    std::string extra; // consistency remarks gathered while observing (empty = fine)
    // light mode (graphs with hundreds of vertices): no all-pairs tables, only these sampled pairs
    bool light = false;
    std::vector<UPair> samplePairs;
    std::vector<std::string> sampleObs; // "has|val|valnt" per sampled pair
};

inline std::string fmtW(double w) {
    char b[64];
    std::snprintf(b, sizeof b, "%a", w);
    return b;
}

template <class F>
std::string guarded(F f) {
    try {
        return f();
    } catch (const std::invalid_argument &) {
        return "!invalid_argument";
    } catch (const std::out_of_range &) {
        return "!out_of_range";
    } catch (const std::exception &ex) {
        return std::string("!exception:") + typeid(ex).name();
    } catch (...) {
        return "!unknown_exception";
    }
}

struct ObsOptions {
    bool hasLabelSets = false; // hasEdge(i,j,l) for every l of the alphabet (C03)
    size_t edgeStepCap = 0;    // 0: n*n*64+16
    bool light = false;        // skip the O(n^2) tables; query only `pairs`
    std::vector<UPair> pairs;
};

// value getters of one pair, as strings (shared by the full and the light observation)
template <class G>
void pairStrings(const G &g, unsigned i, unsigned j, std::string &val, std::string &valnt) {
    typedef GT<G> T;
    typedef typename T::Label L;
    if constexpr (T::fam == 'L') {
        if constexpr (T::nolabel) {
            val = guarded([&] { (void)g.getEdgeLabel(i, j); return std::string("-"); });
            valnt = guarded([&] { (void)g.getEdgeLabel(i, j, false); return std::string("-"); });
        } else {
            val = guarded([&] { return "L" + std::to_string(labelIndex<L>(g.getEdgeLabel(i, j))); });
            valnt = guarded([&] { return "L" + std::to_string(labelIndex<L>(g.getEdgeLabel(i, j, false))); });
        }
    } else if constexpr (T::fam == 'M') {
        val = guarded([&] { return std::to_string(g.getEdgeMultiplicity(i, j)); });
        valnt = val;
    } else {
        val = guarded([&] { return fmtW(g.getEdgeWeight(i, j)); });
        valnt = guarded([&] { return fmtW(g.getEdgeWeight(i, j, false)); });
    }
}

// Light observation for graphs with hundreds of vertices: sizes, totals, vertex iteration, neighbour lists,
// degrees (single and vector forms), edges(), and the getters on the sampled pairs only.
template <class G>
void observeLight(const G &g, Obs &o, const ObsOptions &opt) {
    typedef GT<G> T;
    size_t n = o.n;
    o.light = true;
    o.nb.resize(n);
    o.dA.resize(n);
    o.dB.resize(n);
    for (unsigned i = 0; i < n; ++i) {
        const auto &lst = g.getOutNeighbours(i);
        o.nb[i].assign(lst.begin(), lst.end());
        if constexpr (T::directed) {
            o.dA[i] = g.getOutDegree(i);
            o.dB[i] = (size_t)-1; // getInDegree scans all edges: only queried for the sampled vertices below
        } else {
            o.dA[i] = g.getDegree(i);
            o.dB[i] = g.getDegree(i, false);
        }
    }
    if constexpr (T::directed) {
        o.dAv = g.getOutDegrees();
        o.dBv = g.getInDegrees();
    } else {
        o.dAv = g.getDegrees();
        o.dBv = g.getDegrees(false);
    }
    {
        size_t cap = n * 8 + 4096;
        auto er = g.edges();
        auto en = er.end();
        size_t steps = 0;
        for (auto it = er.begin(); it != en; ++it) {
            if (++steps > cap) {
                o.extra += "edges() did not terminate; ";
                break;
            }
            BaseGraph::Edge ed = *it;
            o.edges.emplace_back(ed.first, ed.second);
        }
    }
    if constexpr (T::directed) {
        for (auto &p : opt.pairs) {
            if (p.first < n)
                o.dB[p.first] = g.getInDegree(p.first);
            if (p.second < n)
                o.dB[p.second] = g.getInDegree(p.second);
        }
        for (unsigned i = 0; i < n; i += 16)
            o.dB[i] = g.getInDegree(i);
    }
    o.samplePairs = opt.pairs;
    for (auto &p : opt.pairs) {
        std::string val, valnt;
        std::string h = guarded([&] { return std::string(g.hasEdge(p.first, p.second) ? "1" : "0"); });
        pairStrings(g, p.first, p.second, val, valnt);
        o.sampleObs.push_back(h + "|" + val + "|" + valnt);
    }
}

template <class G>
void observe(const G &g, Obs &o, const ObsOptions &opt = ObsOptions()) {
    typedef GT<G> T;
    typedef typename T::Label L;
    o = Obs();
    o.n = g.getSize();
    o.edgeNumber = g.getEdgeNumber();
    size_t n = o.n;
    if constexpr (T::fam == 'M') {
        o.hasTotalCount = true;
        o.totalCount = g.getTotalEdgeNumber();
    }
    if constexpr (T::fam == 'W') {
        o.hasTotalW = true;
        o.totalW = g.getTotalWeight();
    }
    // vertex iteration
    {
        size_t cap = n + 4;
        for (auto it = g.begin(); it != g.end() && o.vertices.size() < cap; ++it)
            o.vertices.push_back(*it);
    }
    if (opt.light) {
        observeLight(g, o, opt);
        return;
    }
    o.nb.resize(n);
    o.has.assign(n, std::vector<int>(n, 0));
    o.val.assign(n, std::vector<std::string>(n));
    o.valnt.assign(n, std::vector<std::string>(n));
    if (opt.hasLabelSets)
        o.hasl.assign(n, std::vector<std::string>(n));
    o.dA.resize(n);
    o.dB.resize(n);
    for (unsigned i = 0; i < n; ++i) {
        const auto &lst = g.getOutNeighbours(i);
        o.nb[i].assign(lst.begin(), lst.end());
        if constexpr (!T::directed && T::fam == 'L') {
            const auto &l2 = g.getNeighbours(i);
            if (!(std::vector<unsigned>(l2.begin(), l2.end()) == o.nb[i]))
                o.extra += "getNeighbours(" + std::to_string(i) + ")!=getOutNeighbours; ";
        }
        for (unsigned j = 0; j < n; ++j) {
            o.has[i][j] = g.hasEdge(i, j) ? 1 : 0;
            if constexpr (T::fam == 'L') {
                if constexpr (T::nolabel) {
                    o.val[i][j] = guarded([&] { (void)g.getEdgeLabel(i, j); return std::string("-"); });
                    o.valnt[i][j] = guarded([&] { (void)g.getEdgeLabel(i, j, false); return std::string("-"); });
                } else {
                    o.val[i][j] = guarded([&] { return "L" + std::to_string(labelIndex<L>(g.getEdgeLabel(i, j))); });
                    o.valnt[i][j] =
                        guarded([&] { return "L" + std::to_string(labelIndex<L>(g.getEdgeLabel(i, j, false))); });
                    if (opt.hasLabelSets) {
                        std::string s;
                        for (int k = 0; k < LABEL_K; ++k)
                            if (g.hasEdge(i, j, LabelCodec<L>::mk(k)))
                                s += std::to_string(k) + ",";
                        o.hasl[i][j] = s;
                    }
                }
            } else if constexpr (T::fam == 'M') {
                o.val[i][j] = guarded([&] { return std::to_string(g.getEdgeMultiplicity(i, j)); });
                o.valnt[i][j] = o.val[i][j];
            } else {
                o.val[i][j] = guarded([&] { return fmtW(g.getEdgeWeight(i, j)); });
                o.valnt[i][j] = guarded([&] { return fmtW(g.getEdgeWeight(i, j, false)); });
            }
        }
        if constexpr (T::directed) {
            o.dA[i] = g.getOutDegree(i);
            o.dB[i] = g.getInDegree(i);
        } else {
            o.dA[i] = g.getDegree(i);
            o.dB[i] = g.getDegree(i, false);
            if (g.getDegree(i, true) != o.dA[i])
                o.extra += "getDegree(v) != getDegree(v,true); ";
        }
    }
    if constexpr (T::directed) {
        o.dAv = g.getOutDegrees();
        o.dBv = g.getInDegrees();
        o.adj = g.getAdjacencyMatrix();
    } else {
        o.dAv = g.getDegrees();
        o.dBv = g.getDegrees(false);
        o.adj = g.getAdjacencyMatrix();
        o.adj1 = g.getAdjacencyMatrix(false);
        if (!(g.getAdjacencyMatrix(true) == o.adj))
            o.extra += "getAdjacencyMatrix() != getAdjacencyMatrix(true); ";
    }
    if constexpr (T::fam == 'W') {
        auto wm = g.getWeightMatrix();
        o.wm.resize(wm.size());
        for (size_t i = 0; i < wm.size(); ++i)
            for (double w : wm[i])
                o.wm[i].push_back(fmtW(w));
    }
    // edge enumeration (bounded so that a non-terminating iterator is a failure, not a hang)
    {
        size_t cap = opt.edgeStepCap ? opt.edgeStepCap : (n * n * 64 + 16);
        auto er = g.edges();
        auto it = er.begin();
        auto en = er.end();
        size_t steps = 0;
        for (; it != en; ++it) {
            if (++steps > cap) {
                o.extra += "edges() did not terminate within " + std::to_string(cap) + " steps; ";
                break;
            }
            BaseGraph::Edge ed = *it;
            o.edges.emplace_back(ed.first, ed.second);
        }
    }
}

// canonical text of an observation; exact=true keeps list orders
inline std::string obsText(const Obs &o, bool exact, bool directed) {
    std::string s;
    auto num = [&](size_t v) { s += std::to_string(v); s += ' '; };
    s += "n ";
    num(o.n);
    s += "m ";
    num(o.edgeNumber);
    if (o.hasTotalCount) {
        s += "T ";
        num(o.totalCount);
    }
    s += "\nV ";
    for (auto v : o.vertices)
        num(v);
    for (size_t i = 0; i < o.nb.size(); ++i) {
        s += "\nN" + std::to_string(i) + " ";
        auto l = o.nb[i];
        if (!exact)
            std::sort(l.begin(), l.end());
        for (auto v : l)
            num(v);
    }
    s += "\nH ";
    for (auto &r : o.has)
        for (int v : r)
            s += v ? '1' : '0';
    s += "\nL ";
    for (auto &r : o.val)
        for (auto &v : r)
            s += v + ";";
    s += "\nLn ";
    for (auto &r : o.valnt)
        for (auto &v : r)
            s += v + ";";
    if (!o.hasl.empty()) {
        s += "\nHl ";
        for (auto &r : o.hasl)
            for (auto &v : r)
                s += v + ";";
    }
    s += "\nD ";
    for (auto v : o.dA)
        num(v);
    s += "| ";
    for (auto v : o.dB)
        num(v);
    s += "| ";
    for (auto v : o.dAv)
        num(v);
    s += "| ";
    for (auto v : o.dBv)
        num(v);
    s += "\nA ";
    for (auto &r : o.adj)
        for (auto v : r)
            num(v);
    s += "\nA1 ";
    for (auto &r : o.adj1)
        for (auto v : r)
            num(v);
    s += "\nW ";
    for (auto &r : o.wm)
        for (auto &v : r)
            s += v + ";";
    s += "\nE ";
    auto ed = o.edges;
    if (!exact) {
        if (!directed)
            for (auto &p : ed)
                if (p.first > p.second)
                    std::swap(p.first, p.second);
        std::sort(ed.begin(), ed.end());
    }
    for (auto &p : ed) {
        num(p.first);
        num(p.second);
        s += ", ";
    }
    if (o.light) {
        s += "\nS ";
        for (size_t k = 0; k < o.samplePairs.size(); ++k)
            s += std::to_string(o.samplePairs[k].first) + "," + std::to_string(o.samplePairs[k].second) + "=" + o.sampleObs[k] + ";";
    }
    s += "\nX " + o.extra + "\n";
    return s;
}

// ------------------------------------------------------- expected observation
struct ExpectOptions {
    bool hasLabelSets = false;
    bool dupState = false; // some pair has copies>1
    bool light = false;
    std::vector<UPair> pairs;
};

inline void expectedObs(const Model &m, Obs &o, const ExpectOptions &opt) {
    o = Obs();
    size_t n = m.n;
    o.n = n;
    o.nb.resize(n);
    o.light = opt.light;
    size_t tn = opt.light ? 0 : n; // light mode: no all-pairs tables
    o.has.assign(tn, std::vector<int>(tn, 0));
    o.val.assign(tn, std::vector<std::string>(tn));
    o.valnt.assign(tn, std::vector<std::string>(tn));
    if (opt.hasLabelSets)
        o.hasl.assign(tn, std::vector<std::string>(tn));
    o.dA.assign(n, 0);
    o.dB.assign(n, 0);
    o.adj.assign(tn, std::vector<size_t>(tn, 0));
    if (!m.directed)
        o.adj1.assign(tn, std::vector<size_t>(tn, 0));
    if (m.fam == 'W')
        o.wm.assign(tn, std::vector<std::string>(tn, fmtW(0.0)));
    for (unsigned v = 0; v < n; ++v)
        o.vertices.push_back(v);
    // absent defaults
    for (unsigned i = 0; i < tn; ++i)
        for (unsigned j = 0; j < tn; ++j) {
            if (m.fam == 'L') {
                if (m.nolabel) {
                    o.val[i][j] = "-";
                    o.valnt[i][j] = "-";
                } else {
                    o.val[i][j] = "!invalid_argument";
                    o.valnt[i][j] = "L0";
                }
            } else if (m.fam == 'M') {
                o.val[i][j] = "0";
                o.valnt[i][j] = "0";
            } else {
                o.val[i][j] = "!invalid_argument";
                o.valnt[i][j] = fmtW(0.0);
            }
        }
    size_t edgeNumber = 0, totalCount = 0;
    long double totalW = 0;
    for (auto &p : m.e) {
        unsigned i = p.first.first, j = p.first.second;
        const MVal &v = p.second;
        edgeNumber += v.copies;
        size_t weightPerCopy = (m.fam == 'M') ? (size_t)v.k : 1;
        // after removeDuplicateEdges the totals are those of the deduplicated graph; in a
        // duplicated state every copy contributes
        totalCount += (size_t)v.k * v.copies;
        totalW += (long double)v.w * v.copies;
        std::string val, valnt;
        if (m.fam == 'L') {
            val = m.nolabel ? "-" : "L" + std::to_string(v.k);
            valnt = val;
        } else if (m.fam == 'M') {
            val = valnt = std::to_string(v.k);
        } else {
            val = valnt = fmtW(v.w);
        }
        auto setPair = [&](unsigned a, unsigned b) {
            if (opt.light)
                return;
            o.has[a][b] = 1;
            o.val[a][b] = val;
            o.valnt[a][b] = valnt;
            if (opt.hasLabelSets && m.fam == 'L' && !m.nolabel) {
                if (m.singleLabel) {
                    o.hasl[a][b].clear();
                    for (int q = 0; q < LABEL_K; ++q)
                        o.hasl[a][b] += std::to_string(q) + ",";
                } else
                    o.hasl[a][b] = std::to_string(v.k) + ",";
            }
            if (m.fam == 'W')
                o.wm[a][b] = fmtW(v.w);
        };
        for (unsigned c = 0; c < v.copies; ++c) {
            o.nb[i].push_back(j);
            if (!m.directed && i != j)
                o.nb[j].push_back(i);
            o.edges.emplace_back(i, j);
        }
        setPair(i, j);
        if (!m.directed)
            setPair(j, i);
        size_t w = weightPerCopy * v.copies;
        if (m.directed) {
            o.dA[i] += w;
            o.dB[j] += w;
            if (!opt.light)
                o.adj[i][j] += w;
        } else if (i == j) {
            o.dA[i] += 2 * w;
            o.dB[i] += w;
            if (!opt.light) {
                o.adj[i][i] += 2 * w;
                o.adj1[i][i] += w;
            }
        } else {
            o.dA[i] += w;
            o.dA[j] += w;
            o.dB[i] += w;
            o.dB[j] += w;
            if (!opt.light) {
                o.adj[i][j] += w;
                o.adj[j][i] += w;
                o.adj1[i][j] += w;
                o.adj1[j][i] += w;
            }
        }
    }
    if (opt.light) {
        // the sampled pairs
        o.samplePairs = opt.pairs;
        for (auto &p : opt.pairs) {
            std::string val, valnt;
            const MVal *v = (p.first < n && p.second < n) ? m.find(p.first, p.second) : nullptr;
            if (m.fam == 'L') {
                val = m.nolabel ? "-" : (v ? "L" + std::to_string(v->k) : "!invalid_argument");
                valnt = m.nolabel ? "-" : (v ? "L" + std::to_string(v->k) : "L0");
            } else if (m.fam == 'M') {
                val = valnt = v ? std::to_string(v->k) : "0";
            } else {
                val = v ? fmtW(v->w) : "!invalid_argument";
                valnt = v ? fmtW(v->w) : fmtW(0.0);
            }
            o.sampleObs.push_back(std::string(v ? "1" : "0") + "|" + val + "|" + valnt);
        }
    }
    o.dAv = o.dA;
    o.dBv = o.dB;
    o.edgeNumber = edgeNumber;
    if (m.fam == 'M') {
        o.hasTotalCount = true;
        o.totalCount = totalCount;
    }
    if (m.fam == 'W') {
        o.hasTotalW = true;
        o.totalW = totalW;
    }
}

// Compares an observation with the expected one, field by field, order-free.
// Returns "" when equal, otherwise "<observer>: got ... expected ...".
struct CmpOptions {
    bool directed = true;
    char fam = 'L';
    bool dupState = false;
    bool exactWeights = true;
    long double weightTol = 0; // absolute tolerance on the running total in rounded mode
};

template <class T>
std::string showVec(const std::vector<T> &v) {
    std::string s = "[";
    for (size_t i = 0; i < v.size(); ++i) {
        if (i)
            s += ",";
        s += std::to_string(v[i]);
    }
    return s + "]";
}
inline std::string showMat(const Mat &m) {
    std::string s = "[";
    for (auto &r : m)
        s += showVec(r);
    return s + "]";
}
inline std::string showEdges(const std::vector<UPair> &v) {
    std::string s = "[";
    for (auto &p : v)
        s += "(" + std::to_string(p.first) + "," + std::to_string(p.second) + ")";
    return s + "]";
}

inline std::string compareObs(const Obs &got, const Obs &exp, const CmpOptions &c, std::string &observer) {
    auto fail = [&](const std::string &obs, const std::string &g, const std::string &e) {
        observer = obs;
        return obs + ": got " + g + " expected " + e;
    };
    if (got.n != exp.n)
        return fail("getSize", std::to_string(got.n), std::to_string(exp.n));
    size_t n = exp.n;
    if (got.vertices != exp.vertices)
        return fail("vertex-iteration", got.vertices.size() > 40 ? std::to_string(got.vertices.size()) + " vertices" : showVec(got.vertices), "0.." + std::to_string(n) + "-1");
    if (exp.light) {
        // graphs with hundreds of vertices: lists, counts, totals, degrees, edges() and the sampled pairs
        if (got.edgeNumber != exp.edgeNumber)
            return fail("getEdgeNumber", std::to_string(got.edgeNumber), std::to_string(exp.edgeNumber));
        for (unsigned i = 0; i < n; ++i) {
            auto a = got.nb[i], b = exp.nb[i];
            std::sort(a.begin(), a.end());
            std::sort(b.begin(), b.end());
            if (a != b)
                return fail("getOutNeighbours", "N(" + std::to_string(i) + ")=" + showVec(got.nb[i]), showVec(b));
        }
        for (size_t k = 0; k < exp.samplePairs.size(); ++k)
            if (k >= got.sampleObs.size() || got.sampleObs[k] != exp.sampleObs[k])
                return fail(c.fam == 'L' ? "hasEdge/getEdgeLabel" : c.fam == 'M' ? "hasEdge/getEdgeMultiplicity" : "hasEdge/getEdgeWeight",
                            "(" + std::to_string(exp.samplePairs[k].first) + "," + std::to_string(exp.samplePairs[k].second) + ")=" + (k < got.sampleObs.size() ? got.sampleObs[k] : "?"),
                            exp.sampleObs[k]);
        if (exp.hasTotalCount && got.totalCount != exp.totalCount)
            return fail("getTotalEdgeNumber", std::to_string(got.totalCount), std::to_string(exp.totalCount));
        if (exp.hasTotalW) {
            long double d = got.totalW - exp.totalW;
            if (d < 0)
                d = -d;
            if (c.exactWeights ? (got.totalW != exp.totalW) : !(d <= c.weightTol)) {
                observer = "getTotalWeight";
                return "getTotalWeight: differs from the model";
            }
        }
        if (!(c.fam == 'M' && c.dupState)) {
            for (unsigned i = 0; i < n; ++i) {
                if (got.dA[i] != exp.dA[i] || got.dAv[i] != exp.dAv[i])
                    return fail(c.directed ? "getOutDegree(s)" : "getDegree(s)", "vertex " + std::to_string(i) + ": " + std::to_string(got.dA[i]) + "/" + std::to_string(got.dAv[i]), std::to_string(exp.dA[i]));
                if ((got.dB[i] != (size_t)-1 && got.dB[i] != exp.dB[i]) || got.dBv[i] != exp.dBv[i])
                    return fail(c.directed ? "getInDegree(s)" : "getDegree(s)(false)", "vertex " + std::to_string(i) + ": " + std::to_string(got.dB[i]) + "/" + std::to_string(got.dBv[i]), std::to_string(exp.dB[i]));
            }
        }
        auto a = got.edges, b = exp.edges;
        if (!c.directed)
            for (auto &p : a)
                if (p.first > p.second)
                    std::swap(p.first, p.second);
        std::sort(a.begin(), a.end());
        std::sort(b.begin(), b.end());
        if (a != b)
            return fail("edges()", a.size() > 60 ? std::to_string(a.size()) + " edges" : showEdges(got.edges), b.size() > 60 ? std::to_string(b.size()) + " edges" : showEdges(b));
        if (!got.extra.empty()) {
            observer = "consistency";
            return "consistency: " + got.extra;
        }
        return "";
    }
    for (unsigned i = 0; i < n; ++i)
        for (unsigned j = 0; j < n; ++j)
            if (got.has[i][j] != exp.has[i][j])
                return fail("hasEdge", "hasEdge(" + std::to_string(i) + "," + std::to_string(j) + ")=" + std::to_string(got.has[i][j]),
                            std::to_string(exp.has[i][j]));
    if (got.edgeNumber != exp.edgeNumber)
        return fail("getEdgeNumber", std::to_string(got.edgeNumber), std::to_string(exp.edgeNumber));
    for (unsigned i = 0; i < n; ++i) {
        auto a = got.nb[i], b = exp.nb[i];
        std::sort(a.begin(), a.end());
        std::sort(b.begin(), b.end());
        if (a != b)
            return fail("getOutNeighbours", "N(" + std::to_string(i) + ")=" + showVec(got.nb[i]), showVec(b));
    }
    for (unsigned i = 0; i < n; ++i)
        for (unsigned j = 0; j < n; ++j) {
            if (got.val[i][j] != exp.val[i][j])
                return fail(c.fam == 'L' ? "getEdgeLabel" : c.fam == 'M' ? "getEdgeMultiplicity" : "getEdgeWeight",
                            "(" + std::to_string(i) + "," + std::to_string(j) + ")=" + got.val[i][j], exp.val[i][j]);
            if (got.valnt[i][j] != exp.valnt[i][j])
                return fail(c.fam == 'L' ? "getEdgeLabel(nothrow)" : c.fam == 'M' ? "getEdgeMultiplicity" : "getEdgeWeight(nothrow)",
                            "(" + std::to_string(i) + "," + std::to_string(j) + ")=" + got.valnt[i][j], exp.valnt[i][j]);
        }
    if (!exp.hasl.empty())
        for (unsigned i = 0; i < n; ++i)
            for (unsigned j = 0; j < n; ++j)
                if (got.hasl[i][j] != exp.hasl[i][j])
                    return fail("hasEdge(label)", "(" + std::to_string(i) + "," + std::to_string(j) + ") true for {" + got.hasl[i][j] + "}",
                                "{" + exp.hasl[i][j] + "}");
    if (exp.hasTotalCount && got.totalCount != exp.totalCount)
        return fail("getTotalEdgeNumber", std::to_string(got.totalCount), std::to_string(exp.totalCount));
    if (exp.hasTotalW) {
        long double d = got.totalW - exp.totalW;
        if (d < 0)
            d = -d;
        bool bad = c.exactWeights ? (got.totalW != exp.totalW) : !(d <= c.weightTol);
        if (bad) {
            char b[160];
            std::snprintf(b, sizeof b, "%.21Lg expected %.21Lg (tol %.3Lg)", got.totalW, exp.totalW, c.exactWeights ? 0.0L : c.weightTol);
            observer = "getTotalWeight";
            return std::string("getTotalWeight: got ") + b;
        }
    }
    bool skipWeighted = (c.fam == 'M' && c.dupState); // multiplicity-weighted counts undefined while duplicated
    if (!skipWeighted) {
        const char *nA = c.directed ? "getOutDegree" : "getDegree";
        const char *nB = c.directed ? "getInDegree" : "getDegree(false)";
        if (got.dA != exp.dA)
            return fail(nA, showVec(got.dA), showVec(exp.dA));
        if (got.dB != exp.dB)
            return fail(nB, showVec(got.dB), showVec(exp.dB));
        if (got.dAv != exp.dAv)
            return fail(std::string(nA) + "s", showVec(got.dAv), showVec(exp.dAv));
        if (got.dBv != exp.dBv)
            return fail(std::string(nB) + "s", showVec(got.dBv), showVec(exp.dBv));
        if (got.adj != exp.adj)
            return fail("getAdjacencyMatrix", showMat(got.adj), showMat(exp.adj));
        if (!c.directed && got.adj1 != exp.adj1)
            return fail("getAdjacencyMatrix(false)", showMat(got.adj1), showMat(exp.adj1));
    }
    if (c.fam == 'W' && got.wm != exp.wm) {
        observer = "getWeightMatrix";
        return "getWeightMatrix: differs from the model";
    }
    {
        auto a = got.edges, b = exp.edges;
        if (!c.directed)
            for (auto &p : a)
                if (p.first > p.second)
                    std::swap(p.first, p.second);
        std::sort(a.begin(), a.end());
        std::sort(b.begin(), b.end());
        if (a != b)
            return fail("edges()", showEdges(got.edges), showEdges(b));
    }
    if (!got.extra.empty()) {
        observer = "consistency";
        return "consistency: " + got.extra;
    }
    return "";
}

// ---------------------------------------------------------------- engine
struct StepFacts {
    std::set<std::string> tags;
    std::set<std::string> kinds;
    void tag(const std::string &t) { tags.insert(t); }
};

struct EngineOptions {
    std::string prop;
    bool hasLabelSets = false;
    bool exactWeights = true;
    bool pairValues = false; // C16: label / weight / multiplicity is a function of the pair
    bool bigMult = false;    // C16 multigraphs: per-pair multiplicities of several 10^8
    bool light = false;      // graphs with hundreds of vertices: light observation (no all-pairs tables)
    unsigned sparseEvery = 0; // >0: the observers run only after every k-th operation (and at the end), so that
                              // several mutations happen between two observations (stale caches keyed on counters)
    bool safetyOnly = false; // C17: any valid call sequence (forced duplicates followed by any mutator included, where no property
                             // fixes the outcome): the calls and all observers run, nothing is compared; the sanitizers are the oracle
    bool touch = true;       // read the target pair right before and right after the call (read-modify-read on one key)
    size_t maxN = 12;
};

// outcome of applying one op to the real graph
struct CallOutcome {
    std::string exc; // "" or "!invalid_argument" ...
};

template <class G>
struct Engine {
    typedef GT<G> T;
    typedef typename T::Label L;

    G g;
    Model m;
    EngineOptions opt;
    StepFacts facts;
    std::string prevExact;
    long double absWeightSum = 0; // sum of |w| over all ops (rounded-mode tolerance)
    size_t nOps = 0;
    size_t extraUpdates = 0; // updates made inside one op (fill, churn): they count for the rounded-mode tolerance
    uint64_t digest = 1469598103934665603ULL;
    // removal history for C03 tags: pair -> (kind, label index)
    std::map<UPair, std::pair<std::string, long long>> removedBy;
    std::string trace; // resolved calls, for failure messages

    explicit Engine(size_t n0, const EngineOptions &o) : g(n0), opt(o) {
        m.directed = T::directed;
        m.fam = T::fam;
        m.nolabel = T::nolabel;
        if constexpr (T::fam == 'L')
            m.singleLabel = SingleValued<L>::value;
        m.n = n0;
    }

    // A reference to an element of the graph's own neighbour lists that holds the value v (or nullptr).
    // Passing such a reference where the API takes a vertex index is a valid use; a callee that keeps
    // it as a reference while erasing list nodes reads freed memory.
    const VertexIndex *aliasOf(unsigned v, bool fromBack) const {
        const VertexIndex *found = nullptr;
        for (unsigned u = 0; u < m.n; ++u)
            for (const VertexIndex &x : g.getOutNeighbours(u))
                if (x == v) {
                    found = &x;
                    if (!fromBack)
                        return found;
                }
        return found;
    }
    static bool wantsAlias(const Op &op) { return !op.a.empty() && (op.a.back() == "alias" || op.a.back() == "alias2"); }

    // resolve the pair an op names
    bool haveLast = false;
    unsigned lastI = 0, lastJ = 0;
    bool resolvePair(const Op &op, unsigned &i, unsigned &j) {
        if (m.n == 0)
            return false;
        unsigned long long a = op.u(0), b = op.u(1);
        long long mode = op.i(2);
        if ((mode == 1 || mode == 2) && !m.e.empty()) {
            auto it = m.e.begin();
            std::advance(it, a % m.e.size());
            i = it->first.first;
            j = it->first.second;
            bool flip = (mode == 2) || (!m.directed && (b & 1));
            if (flip)
                std::swap(i, j);
            return true;
        }
        if (mode == 3) {
            i = j = (unsigned)(a % m.n);
            return true;
        }
        if ((mode == 4 || mode == 5) && haveLast && lastI < m.n && lastJ < m.n) {
            // the pair of the previous pair operation (5: named the other way round): several different operations in a row on one pair
            i = mode == 4 ? lastI : lastJ;
            j = mode == 4 ? lastJ : lastI;
            return true;
        }
        i = (unsigned)(a % m.n);
        j = (unsigned)(b % m.n);
        return true;
    }

    static L mkLabel(long long k) {
        if constexpr (T::fam == 'L')
            return LabelCodec<L>::mk((int)k);
        else if constexpr (T::fam == 'M')
            return (unsigned)k;
        else
            return (double)k;
    }

    void noteRemoved(const UPair &k, const MVal &v, const std::string &kind) {
        removedBy[k] = std::make_pair(kind, v.k);
        facts.tag("removed_by_" + kind);
        if (m.fam == 'M' && v.k >= 2)
            facts.tag("removed_multi_by_" + kind);
    }

    // model-side creation of a pair
    void createPair(unsigned i, unsigned j, long long k, double w) {
        UPair key = m.key(i, j);
        MVal v;
        v.copies = 1;
        v.k = k;
        v.w = w;
        v.ci = i;
        v.cj = j;
        m.e[key] = v;
        auto it = removedBy.find(key);
        if (it != removedBy.end()) {
            if (it->second.second != k)
                facts.tag("recreated_after_" + it->second.first);
            removedBy.erase(it);
        }
    }

    // Applies op to graph and model.  Returns "" or a failure description.
    // semanticNoop is set when the documented effect is "changes nothing".
    std::string apply(const Op &op, bool &semanticNoop, std::string &expectExc, std::string &gotExc, bool &skipped) {
        semanticNoop = false;
        skipped = false;
        expectExc.clear();
        gotExc.clear();
        const std::string &k = op.kind;
        unsigned i = 0, j = 0;
        auto call = [&](auto f) {
            try {
                f();
            } catch (const std::invalid_argument &) {
                gotExc = "!invalid_argument";
            } catch (const std::out_of_range &) {
                gotExc = "!out_of_range";
            } catch (const std::exception &ex) {
                gotExc = std::string("!exception:") + typeid(ex).name() + ":" + ex.what();
            } catch (...) {
                gotExc = "!unknown_exception";
            }
        };
        auto tr = [&](const std::string &s) { trace += s + "; "; if (trace.size() > 6000) trace.erase(0, trace.size() - 5000); };
        auto ps = [&](unsigned a, unsigned b) { return std::to_string(a) + "," + std::to_string(b); };

        if (k == "add" || k == "add1") {
            if (!resolvePair(op, i, j)) { skipped = true; return ""; }
            long long x = op.i(3);
            long long fl = op.i(4);
            bool force = fl & 1;
            bool dfltOverload = (fl & 2) || k == "add1";
            double w = op.d(3);
            if (opt.pairValues) {
                UPair kk = m.key(i, j);
                x = 1 + (kk.first * 5 + kk.second * 3) % 7;
                w = x / 8.0;
                dfltOverload = false;
                if (T::fam == 'M' && opt.bigMult)
                    x *= 600000000LL; // <= 4.2e9 < 2^32: each copy fits, a few copies together do not fit 32 bits
            }
            if constexpr (T::fam == 'L') {
                x = ((x % LABEL_K) + LABEL_K) % LABEL_K;
                if (dfltOverload || T::nolabel || m.singleLabel)
                    x = 0;
            } else if constexpr (T::fam == 'M') {
                if (k == "add1" && !opt.pairValues)
                    x = 1;
                if (x < 0)
                    x = -x;
            }
            const MVal *cur = m.find(i, j);
            if (T::fam == 'M' && (x > 4294967295LL || (!force && cur && cur->k + x > 4294967295LL))) {
                // EdgeMultiplicity is a 32-bit unsigned: one pair cannot hold more (wrap-around is not the property)
                skipped = true;
                facts.tag("skipped_multiplicity_overflow");
                return "";
            }
            if (T::fam == 'M' && x > 2147483647LL)
                facts.tag("huge_multiplicity");
            facts.kinds.insert(force ? "add_forced" : "add");
            // real call
            if constexpr (T::fam == 'L') {
                if (dfltOverload) {
                    tr("addEdge(" + ps(i, j) + (force ? ",true)" : ")"));
                    call([&] { g.addEdge(i, j, force); });
                } else {
                    tr("addEdge(" + ps(i, j) + ",L" + std::to_string(x) + (force ? ",true)" : ")"));
                    call([&] { g.addEdge(i, j, mkLabel(x), force); });
                }
            } else if constexpr (T::fam == 'M') {
                if (k == "add1" && !opt.pairValues) {
                    tr("addEdge(" + ps(i, j) + (force ? ",true)" : ")"));
                    call([&] { g.addEdge(i, j, force); });
                } else {
                    tr("addMultiedge(" + ps(i, j) + "," + std::to_string(x) + (force ? ",true)" : ")"));
                    call([&] { g.addMultiedge(i, j, (unsigned)x, force); });
                }
            } else {
                tr("addEdge(" + ps(i, j) + "," + fmtW(w) + (force ? ",true)" : ")"));
                call([&] { g.addEdge(i, j, w, force); });
                absWeightSum += std::fabs((long double)w);
            }
            // model
            if (T::fam == 'M') {
                if (x == 0) {
                    semanticNoop = true;
                    facts.tag("addmulti_zero");
                } else if (!cur) {
                    createPair(i, j, x, 0);
                } else if (force) {
                    MVal &v = m.e[m.key(i, j)];
                    v.copies++;
                    v.k = x;
                    facts.tag("forced_dup");
                } else {
                    m.e[m.key(i, j)].k += x;
                    facts.tag("multi_increment");
                }
            } else {
                if (!cur) {
                    createPair(i, j, x, w);
                } else if (force) {
                    MVal &v = m.e[m.key(i, j)];
                    v.copies++;
                    v.k = x;
                    v.w = w;
                    facts.tag("forced_dup");
                    if (i == j)
                        facts.tag("forced_dup_loop");
                    if (!m.directed && i > j)
                        facts.tag("forced_dup_from_larger");
                } else {
                    semanticNoop = true;
                    facts.tag("noop_readd");
                }
            }
            return "";
        }
        if (k == "xcopy") {
            // value semantics inside a history: `op xcopy how rot rev cont`
            //   0 copy-construct, copy-assign to a third object, assign back   1 self-assignment (through a reference)
            //   2 move out and move back                                        3 rebuilt through the container constructor from the
            //     model's edges in a generated order / orientation, a third of the pairs listed twice (same label / weight; a multiplicity split in two)
            // the abstract value must be what it was (the neighbour order may change); later mutators then work on the new object
            long long how = ((op.i(0) % 4) + 4) % 4;
            if (how == 3 && m.anyDup()) { skipped = true; return ""; }
            facts.tag(how == 0 ? "copy_roundtrip" : how == 1 ? "self_assignment" : how == 2 ? "move_roundtrip" : "rebuilt_by_container_constructor");
            if (how == 0) {
                tr("G t(g); u = t; g = u");
                call([&] {
                    G t(g);
                    G u(0);
                    u = t;
                    g = u;
                });
            } else if (how == 1) {
                tr("g = g");
                call([&] {
                    G &r = g;
                    g = r;
                });
            } else if (how == 2) {
                tr("G t(std::move(g)); g = std::move(t)");
                call([&] {
                    G t(std::move(g));
                    g = std::move(t);
                });
            } else {
                typedef typename std::conditional<T::nolabel, BaseGraph::Edge, BaseGraph::LabeledEdge<L>>::type Entry;
                std::vector<Entry> entries, twice;
                std::vector<std::pair<UPair, MVal>> es(m.e.begin(), m.e.end());
                if (!es.empty())
                    std::rotate(es.begin(), es.begin() + (long)(op.u(1) % es.size()), es.end());
                if (op.u(2) & 1)
                    std::reverse(es.begin(), es.end());
                size_t idx = 0;
                for (auto &p : es) {
                    unsigned a = p.first.first, b = p.first.second;
                    if (!T::directed && ((idx + op.u(2)) % 2))
                        std::swap(a, b);
                    // the second listing of a pair: the same ordered pair when directed, the other orientation when undirected
                    unsigned a2 = T::directed ? a : b, b2 = T::directed ? b : a;
                    bool dup = (idx + op.u(1)) % 3 == 0;
                    if constexpr (T::nolabel) {
                        entries.emplace_back(a, b);
                        if (dup)
                            twice.emplace_back(a2, b2);
                    } else if constexpr (T::fam == 'L') {
                        entries.emplace_back(a, b, mkLabel(p.second.k));
                        if (dup)
                            twice.emplace_back(a2, b2, mkLabel(p.second.k));
                    } else if constexpr (T::fam == 'M') {
                        if (dup && p.second.k >= 2) {
                            entries.emplace_back(a, b, (unsigned)(p.second.k - 1));
                            twice.emplace_back(a2, b2, 1u);
                        } else
                            entries.emplace_back(a, b, (unsigned)p.second.k);
                    } else {
                        entries.emplace_back(a, b, p.second.w);
                        if (dup)
                            twice.emplace_back(a2, b2, p.second.w);
                        absWeightSum += 2 * std::fabs((long double)p.second.w);
                    }
                    ++idx;
                }
                entries.insert(entries.end(), twice.begin(), twice.end());
                extraUpdates += entries.size();
                unsigned cont = (unsigned)(op.u(3) % 3);
                tr(std::string("g = G(") + (cont == 0 ? "vector" : cont == 1 ? "list" : "deque") + " of " + std::to_string(entries.size()) + " edges); resize");
                call([&] {
                    if (cont == 0)
                        g = G(entries);
                    else if (cont == 1)
                        g = G(std::list<Entry>(entries.begin(), entries.end()));
                    else
                        g = G(std::deque<Entry>(entries.begin(), entries.end()));
                    if (g.getSize() < m.n)
                        g.resize(m.n);
                });
                // the constructed graph has 1 + largest used index vertices: never more than before
            }
            return "";
        }
        if (k == "churn") {
            // `op churn i j mode v1 v2 cnt`: the value of an existing edge set to v1, then v2, cnt times over, unobserved in between
            // (simple graphs: the edge removed and added again): a long update history on one object
            if (!resolvePair(op, i, j)) { skipped = true; return ""; }
            const MVal *cur = m.find(i, j);
            if (!cur || cur->copies != 1) { skipped = true; return ""; }
            size_t cnt = (size_t)std::min<unsigned long long>(op.u(5), 70000);
            facts.kinds.insert("churn");
            facts.tag(cnt >= 65536 ? "churn_65536" : cnt >= 256 ? "churn_256" : "churn_small");
            if constexpr (T::fam == 'W') {
                double w1 = op.d(3), w2 = op.d(4);
                tr("churn setEdgeWeight(" + ps(i, j) + "," + fmtW(w1) + "/" + fmtW(w2) + ") x" + std::to_string(cnt));
                call([&] {
                    for (size_t t = 0; t < cnt; ++t) {
                        g.setEdgeWeight(i, j, w1);
                        g.setEdgeWeight(i, j, w2);
                    }
                });
                absWeightSum += (long double)cnt * (std::fabs((long double)w1) + std::fabs((long double)w2));
                extraUpdates += 2 * cnt;
                if (cnt)
                    m.e[m.key(i, j)].w = w2;
            } else if constexpr (T::fam == 'M') {
                long long x1 = std::llabs(op.i(3)) % 1000 + 1, x2 = std::llabs(op.i(4)) % 1000 + 1;
                tr("churn setEdgeMultiplicity(" + ps(i, j) + "," + std::to_string(x1) + "/" + std::to_string(x2) + ") x" + std::to_string(cnt));
                call([&] {
                    for (size_t t = 0; t < cnt; ++t) {
                        g.setEdgeMultiplicity(i, j, (unsigned)x1);
                        g.setEdgeMultiplicity(i, j, (unsigned)x2);
                    }
                });
                if (cnt)
                    m.e[m.key(i, j)].k = x2;
            } else if constexpr (T::nolabel) {
                tr("churn removeEdge/addEdge(" + ps(i, j) + ") x" + std::to_string(cnt));
                call([&] {
                    for (size_t t = 0; t < cnt; ++t) {
                        g.removeEdge(i, j);
                        g.addEdge(i, j);
                    }
                });
            } else {
                long long x1 = ((op.i(3) % LABEL_K) + LABEL_K) % LABEL_K, x2 = ((op.i(4) % LABEL_K) + LABEL_K) % LABEL_K;
                if (m.singleLabel)
                    x1 = x2 = 0;
                tr("churn setEdgeLabel(" + ps(i, j) + ",L" + std::to_string(x1) + "/L" + std::to_string(x2) + ") x" + std::to_string(cnt));
                call([&] {
                    auto l1 = mkLabel(x1), l2 = mkLabel(x2);
                    for (size_t t = 0; t < cnt; ++t) {
                        g.setEdgeLabel(i, j, l1);
                        g.setEdgeLabel(i, j, l2);
                    }
                });
                if (cnt)
                    m.e[m.key(i, j)].k = x2;
            }
            return "";
        }
        if (k == "fill") {
            // one op that gives vertex a (up to) cnt neighbours a+1, a+2, ...: large degrees with few ops
            if (m.n == 0) { skipped = true; return ""; }
            unsigned a = (unsigned)(op.u(0) % m.n);
            size_t cnt = std::min<size_t>((size_t)op.u(1), m.n);
            extraUpdates += cnt;
            bool allNoop = true;
            for (size_t t = 1; t <= cnt; ++t) {
                Op one;
                one.kind = "add";
                std::string value = T::fam == 'W' ? (op.a.size() > 2 ? op.a[2] : std::string("1")) : std::to_string(op.i(2) + (long long)t);
                unsigned b = (unsigned)((a + t) % m.n);
                bool flip = !T::directed && (t & 1);
                one.a = {std::to_string(flip ? b : a), std::to_string(flip ? a : b), "0", value, (op.a.size() > 3 && op.i(3) & 1) ? "1" : "0"};
                bool nn = false, sk = false;
                std::string ee, ge;
                apply(one, nn, ee, ge, sk);
                if (!ge.empty())
                    gotExc = ge;
                allNoop = allNoop && (nn || sk);
            }
            semanticNoop = allNoop;
            facts.kinds.insert("fill");
            return "";
        }
        if (k == "xrev" || k == "xconv") {
            // observer ops inside a history (C09): reversal / conversions checked against the model at this point
            if constexpr (T::fam != 'L') {
                skipped = true;
                return "";
            } else {
                std::string r;
                try {
                    r = conversionCheck(k == "xrev");
                } catch (const std::exception &ex) {
                    r = std::string(k == "xrev" ? "getReversedGraph" : "conversion") + " threw " + typeid(ex).name() + ": " + ex.what();
                }
                semanticNoop = true;
                facts.tag(k == "xrev" ? "reversal_in_history" : "conversion_in_history");
                return r;
            }
        }
        if (k == "recip" || k == "recip1") {
            if constexpr (!T::directed || T::fam == 'W') {
                skipped = true;
                return "";
            } else {
                if (!resolvePair(op, i, j)) { skipped = true; return ""; }
                long long x = op.i(3);
                long long fl = op.i(4);
                bool dfltOverload = (fl & 2) || k == "recip1";
                facts.kinds.insert("recip");
                if constexpr (T::fam == 'L') {
                    x = ((x % LABEL_K) + LABEL_K) % LABEL_K;
                    if (dfltOverload || T::nolabel || m.singleLabel)
                        x = 0;
                    if (dfltOverload) {
                        tr("addReciprocalEdge(" + ps(i, j) + ")");
                        call([&] { g.addReciprocalEdge(i, j); });
                    } else {
                        tr("addReciprocalEdge(" + ps(i, j) + ",L" + std::to_string(x) + ")");
                        call([&] { g.addReciprocalEdge(i, j, mkLabel(x)); });
                    }
                    bool any = false;
                    if (!m.find(i, j)) { createPair(i, j, x, 0); any = true; }
                    if (!m.find(j, i)) { createPair(j, i, x, 0); any = true; }
                    if (!any) { semanticNoop = true; facts.tag("noop_readd"); }
                } else {
                    if (k == "recip1")
                        x = 1;
                    if (x < 0)
                        x = -x;
                    {
                        const MVal *c1 = m.find(i, j), *c2 = m.find(j, i);
                        long long worst = std::max(c1 ? c1->k : 0, c2 ? c2->k : 0) + (i == j ? 2 * x : x);
                        if (worst > 4294967295LL) {
                            skipped = true;
                            facts.tag("skipped_multiplicity_overflow");
                            return "";
                        }
                    }
                    if (k == "recip1") {
                        tr("addReciprocalEdge(" + ps(i, j) + ")");
                        call([&] { g.addReciprocalEdge(i, j); });
                    } else {
                        tr("addReciprocalMultiedge(" + ps(i, j) + "," + std::to_string(x) + ")");
                        call([&] { g.addReciprocalMultiedge(i, j, (unsigned)x); });
                    }
                    if (x == 0) {
                        semanticNoop = true;
                    } else {
                        for (int r = 0; r < 2; ++r) {
                            unsigned a = r ? j : i, b = r ? i : j;
                            if (!m.find(a, b))
                                createPair(a, b, x, 0);
                            else
                                m.e[m.key(a, b)].k += x;
                        }
                    }
                }
                return "";
            }
        }
        if (k == "rm" || k == "rmk") {
            if (!resolvePair(op, i, j)) { skipped = true; return ""; }
            long long x = (k == "rm") ? 1 : op.i(3);
            if (x < 0)
                x = -x;
            facts.kinds.insert(k);
            const MVal *cur = m.find(i, j);
            if constexpr (T::fam == 'M') {
                const VertexIndex *ai = wantsAlias(op) ? aliasOf(i, false) : nullptr, *aj = wantsAlias(op) ? aliasOf(j, true) : nullptr;
                const VertexIndex &ri = ai ? *ai : i, &rj = aj ? *aj : j;
                if (ai || aj)
                    facts.tag("aliased_argument");
                if (k == "rm") {
                    tr("removeEdge(" + ps(i, j) + ")");
                    call([&] { g.removeEdge(ri, rj); });
                } else {
                    tr("removeMultiedge(" + ps(i, j) + "," + std::to_string(x) + ")");
                    call([&] { g.removeMultiedge(ri, rj, (unsigned)x); });
                }
                if (opt.safetyOnly && cur && cur->copies > 1) {
                    // no property says what a removal leaves of a duplicated pair of a multigraph; the pair stays selectable for the next operations
                    m.e[m.key(i, j)].copies--;
                    facts.tag("rm_on_duplicated_pair");
                } else if (!cur) {
                    semanticNoop = true;
                    facts.tag("noop_rm_absent");
                } else if (x == 0) {
                    semanticNoop = true;
                } else if (cur->k > x) {
                    m.e[m.key(i, j)].k -= x;
                    facts.tag("multi_decrement");
                } else {
                    if (cur->k < x)
                        facts.tag("rmk_more_than_present");
                    noteRemoved(m.key(i, j), *cur, "rm");
                    m.e.erase(m.key(i, j));
                    facts.tag("rm_eff");
                }
            } else {
                if (k == "rmk") { skipped = true; return ""; }
                const VertexIndex *ai = wantsAlias(op) ? aliasOf(i, false) : nullptr, *aj = wantsAlias(op) ? aliasOf(j, true) : nullptr;
                const VertexIndex &ri = ai ? *ai : i, &rj = aj ? *aj : j;
                if (ai || aj)
                    facts.tag("aliased_argument");
                tr("removeEdge(" + ps(i, j) + ")");
                call([&] { g.removeEdge(ri, rj); });
                if (!cur) {
                    semanticNoop = true;
                    facts.tag("noop_rm_absent");
                } else {
                    if (!m.directed && (cur->ci != i || cur->cj != j) && i != j)
                        facts.tag("rm_opposite_orientation");
                    if (cur->copies > 1)
                        facts.tag("rm_all_copies");
                    noteRemoved(m.key(i, j), *cur, "rm");
                    m.e.erase(m.key(i, j));
                    facts.tag("rm_eff");
                }
            }
            return "";
        }
        if (k == "setl") {
            if constexpr (T::fam != 'L' || T::nolabel) {
                skipped = true;
                return "";
            } else {
                if (!resolvePair(op, i, j)) { skipped = true; return ""; }
                long long x = ((op.i(3) % LABEL_K) + LABEL_K) % LABEL_K;
                if (m.singleLabel)
                    x = 0;
                bool force = op.i(4) & 1;
                const MVal *cur = m.find(i, j);
                if (!cur && force) { // documented orphan label: outside every property
                    skipped = true;
                    return "";
                }
                facts.kinds.insert("setl");
                tr("setEdgeLabel(" + ps(i, j) + ",L" + std::to_string(x) + (force ? ",true)" : ")"));
                call([&] { g.setEdgeLabel(i, j, mkLabel(x), force); });
                if (!cur) {
                    expectExc = "!invalid_argument";
                    semanticNoop = true;
                    facts.tag("setl_absent_rejected");
                } else {
                    if (cur->k != x)
                        facts.tag("relabel");
                    if (!m.directed && i > j)
                        facts.tag("relabel_desc");
                    m.e[m.key(i, j)].k = x;
                }
                return "";
            }
        }
        if (k == "setm") {
            if constexpr (T::fam != 'M') {
                skipped = true;
                return "";
            } else {
                if (!resolvePair(op, i, j)) { skipped = true; return ""; }
                long long x = op.i(3);
                if (x < 0)
                    x = -x;
                if (x > 4294967295LL) { // not an EdgeMultiplicity
                    skipped = true;
                    return "";
                }
                facts.kinds.insert("setm");
                const MVal *cur = m.find(i, j);
                const VertexIndex *ai = wantsAlias(op) ? aliasOf(i, false) : nullptr, *aj = wantsAlias(op) ? aliasOf(j, true) : nullptr;
                const VertexIndex &ri = ai ? *ai : i, &rj = aj ? *aj : j;
                if (ai || aj)
                    facts.tag("aliased_argument");
                tr("setEdgeMultiplicity(" + ps(i, j) + "," + std::to_string(x) + ")");
                call([&] { g.setEdgeMultiplicity(ri, rj, (unsigned)x); });
                if (x == 0) {
                    if (!cur) {
                        semanticNoop = true;
                    } else {
                        if (cur->k >= 2)
                            facts.tag("setm0_on_multi");
                        noteRemoved(m.key(i, j), *cur, "setm0");
                        m.e.erase(m.key(i, j));
                        facts.tag("rm_eff");
                    }
                } else if (cur) {
                    if (cur->k == x)
                        semanticNoop = true;
                    m.e[m.key(i, j)].k = x;
                    facts.tag("setm_present");
                } else {
                    createPair(i, j, x, 0);
                    facts.tag("setm_creates");
                }
                return "";
            }
        }
        if (k == "setw") {
            if constexpr (T::fam != 'W') {
                skipped = true;
                return "";
            } else {
                if (!resolvePair(op, i, j)) { skipped = true; return ""; }
                double w = op.d(3);
                facts.kinds.insert("setw");
                const MVal *cur = m.find(i, j);
                tr("setEdgeWeight(" + ps(i, j) + "," + fmtW(w) + ")");
                call([&] { g.setEdgeWeight(i, j, w); });
                absWeightSum += std::fabs((long double)w);
                if (cur) {
                    facts.tag("setw_present");
                    if (!m.directed && i > j)
                        facts.tag("setw_present_desc");
                    m.e[m.key(i, j)].w = w;
                } else {
                    createPair(i, j, 0, w);
                    facts.tag("setw_creates");
                }
                return "";
            }
        }
        if (k == "rmloops") {
            facts.kinds.insert("rmloops");
            tr("removeSelfLoops()");
            call([&] { g.removeSelfLoops(); });
            bool any = false;
            for (unsigned v = 0; v < m.n; ++v) {
                auto it = m.e.find(UPair(v, v));
                if (it != m.e.end()) {
                    noteRemoved(it->first, it->second, "rmloops");
                    m.e.erase(it);
                    any = true;
                }
            }
            if (any)
                facts.tag("rm_eff");
            else
                semanticNoop = true;
            return "";
        }
        if (k == "rmvtx") {
            if (m.n == 0) { skipped = true; return ""; }
            unsigned v = (unsigned)(op.u(0) % m.n);
            if (op.i(1) == 1 && !m.e.empty()) { // selector: an endpoint of an existing edge
                auto it = m.e.begin();
                std::advance(it, op.u(0) % m.e.size());
                v = (op.u(0) / m.e.size()) & 1 ? it->first.second : it->first.first;
            }
            facts.kinds.insert("rmvtx");
            const VertexIndex *al = wantsAlias(op) ? aliasOf(v, op.a.back() == "alias2") : nullptr;
            tr("removeVertexFromEdgeList(" + std::to_string(v) + (al ? " /*reference into a neighbour list*/)" : ")"));
            if (al) {
                facts.tag("aliased_argument");
                call([&] { g.removeVertexFromEdgeList(*al); });
            } else
                call([&] { g.removeVertexFromEdgeList(v); });
            bool any = false;
            for (auto it = m.e.begin(); it != m.e.end();) {
                if (it->first.first == v || it->first.second == v) {
                    if (it->first.first == v && it->first.second == v)
                        facts.tag("rmvtx_with_loop");
                    if (it->first.first == v && it->first.second != v)
                        facts.tag("rmvtx_out_edge");
                    if (it->first.second == v && it->first.first != v)
                        facts.tag("rmvtx_in_edge");
                    noteRemoved(it->first, it->second, "rmvtx");
                    it = m.e.erase(it);
                    any = true;
                } else
                    ++it;
            }
            if (any) {
                facts.tag("rm_eff");
                facts.tag("bulk_eff");
            } else
                semanticNoop = true;
            return "";
        }
        if (k == "clear") {
            facts.kinds.insert("clear");
            tr("clearEdges()");
            call([&] { g.clearEdges(); });
            if (m.e.empty())
                semanticNoop = true;
            else {
                for (auto &p : m.e)
                    noteRemoved(p.first, p.second, "clear");
                facts.tag("rm_eff");
                facts.tag("bulk_eff");
                m.e.clear();
            }
            return "";
        }
        if (k == "resize") {
            size_t add = (size_t)(op.u(0) % 4);
            if (m.n + add > opt.maxN)
                add = 0;
            facts.kinds.insert("resize");
            tr("resize(" + std::to_string(m.n + add) + ")");
            call([&] { g.resize(m.n + add); });
            if (add == 0)
                semanticNoop = true;
            else if (!m.e.empty())
                facts.tag("resize_with_edges");
            m.n += add;
            return "";
        }
        if (k == "dedup") {
            facts.kinds.insert("dedup");
            tr("removeDuplicateEdges()");
            call([&] { g.removeDuplicateEdges(); });
            bool any = false;
            for (auto &p : m.e)
                if (p.second.copies > 1) {
                    p.second.copies = 1;
                    any = true;
                }
            if (any)
                facts.tag("dedup_eff");
            else
                semanticNoop = true;
            return "";
        }
        skipped = true;
        return "";
    }

    // getReversedGraph / getDirectedGraph / undirected-from-directed at the current state, compared with the model
    std::string conversionCheck(bool reversal) {
        if constexpr (T::fam != 'L') {
            return "";
        } else {
            size_t n = m.n;
            auto lab = [&](const L &l) { return "L" + std::to_string(labelIndex<L>(l)); };
            if constexpr (T::directed) {
                if (reversal) {
                    auto r = g.getReversedGraph();
                    if (r.getSize() != n || r.getEdgeNumber() != m.e.size())
                        return "getReversedGraph: size/edge count " + std::to_string(r.getSize()) + "/" + std::to_string(r.getEdgeNumber()) + " expected " + std::to_string(n) + "/" + std::to_string(m.e.size());
                    for (auto &p : m.e) {
                        unsigned i = p.first.first, j = p.first.second;
                        if (!r.hasEdge(j, i))
                            return "getReversedGraph: edge (" + std::to_string(j) + "," + std::to_string(i) + ") missing";
                        if (!T::nolabel && !(r.getEdgeLabel(j, i) == g.getEdgeLabel(i, j)))
                            return "getReversedGraph: label of (" + std::to_string(j) + "," + std::to_string(i) + ") is " + lab(r.getEdgeLabel(j, i)) + " expected " + lab(g.getEdgeLabel(i, j));
                        if (!T::nolabel && labelIndex<L>(g.getEdgeLabel(i, j)) != p.second.k)
                            return "getEdgeLabel disagrees with the model";
                    }
                    if (!(r.getReversedGraph() == g))
                        return "reversing twice does not give an equal graph";
                } else {
                    BaseGraph::LabeledUndirectedGraph<L> u(g);
                    for (unsigned i = 0; i < n; ++i)
                        for (unsigned j = i; j < n; ++j) {
                            bool e = m.has(i, j) || m.has(j, i);
                            if (u.hasEdge(i, j) != e)
                                return "LabeledUndirectedGraph(directed): pair {" + std::to_string(i) + "," + std::to_string(j) + "} " + (e ? "missing" : "invented");
                            if (e && !T::nolabel) {
                                L got = u.getEdgeLabel(i, j);
                                bool ok = (m.has(i, j) && labelIndex<L>(got) == m.find(i, j)->k) || (m.has(j, i) && labelIndex<L>(got) == m.find(j, i)->k);
                                if (!ok)
                                    return "LabeledUndirectedGraph(directed): label of {" + std::to_string(i) + "," + std::to_string(j) + "} is " + lab(got) + ", not the label of a directed edge between them";
                            }
                        }
                }
            } else {
                auto d = g.getDirectedGraph();
                size_t expect = 0;
                for (auto &p : m.e)
                    expect += p.first.first == p.first.second ? 1 : 2;
                if (d.getSize() != n || d.getEdgeNumber() != expect)
                    return "getDirectedGraph: size/edge count " + std::to_string(d.getSize()) + "/" + std::to_string(d.getEdgeNumber()) + " expected " + std::to_string(n) + "/" + std::to_string(expect);
                for (auto &p : m.e) {
                    unsigned i = p.first.first, j = p.first.second;
                    for (int o = 0; o < 2; ++o) {
                        unsigned a = o ? j : i, b = o ? i : j;
                        if (!d.hasEdge(a, b))
                            return "getDirectedGraph: directed edge (" + std::to_string(a) + "," + std::to_string(b) + ") missing";
                        if (!T::nolabel && labelIndex<L>(d.getEdgeLabel(a, b)) != p.second.k)
                            return "getDirectedGraph: label of (" + std::to_string(a) + "," + std::to_string(b) + ") is " + lab(d.getEdgeLabel(a, b)) + " expected L" + std::to_string(p.second.k);
                    }
                }
                if (!reversal) {
                    BaseGraph::LabeledUndirectedGraph<L> back(d);
                    if (!(back == g))
                        return "undirected -> directed -> undirected is not the identity";
                }
            }
            return "";
        }
    }

    CmpOptions cmpOptions() const {
        CmpOptions c;
        c.directed = T::directed;
        c.fam = T::fam;
        c.dupState = m.anyDup();
        c.exactWeights = opt.exactWeights;
        // (m+1) * 2^-50 * (1 + sum|w|)
        c.weightTol = (long double)(nOps + extraUpdates + 1) * std::ldexp(1.0L, -50) * (1.0L + absWeightSum);
        return c;
    }

    // compare real graph with model; returns "" when fine
    std::string checkNow(std::string &observer, Obs *obsOut = nullptr) {
        Obs got, exp;
        ObsOptions oo;
        oo.hasLabelSets = opt.hasLabelSets && T::fam == 'L' && !T::nolabel;
        ExpectOptions eo;
        if (opt.light) {
            oo.light = true;
            std::set<UPair> ps;
            for (auto &p : m.e) {
                ps.insert(p.first);
                ps.insert(UPair(p.first.second, p.first.first));
            }
            for (auto &p : removedBy) {
                ps.insert(p.first);
                ps.insert(UPair(p.first.second, p.first.first));
            }
            if (m.n) {
                unsigned last = (unsigned)m.n - 1;
                ps.insert(UPair(0, 0));
                ps.insert(UPair(last, last));
                ps.insert(UPair(0, last));
                ps.insert(UPair(last, 0));
                ps.insert(UPair(last / 2, last));
            }
            oo.pairs.assign(ps.begin(), ps.end());
            eo.light = true;
            eo.pairs = oo.pairs;
        }
        try {
            observe(g, got, oo);
        } catch (const std::exception &ex) {
            if (opt.safetyOnly)
                return "";
            observer = "observer-threw";
            return std::string("an observer threw ") + typeid(ex).name() + ": " + ex.what();
        }
        if (opt.safetyOnly) {
            digest = fnv1a(obsText(got, true, T::directed), digest);
            return "";
        }
        eo.hasLabelSets = oo.hasLabelSets;
        expectedObs(m, exp, eo);
        std::string r = compareObs(got, exp, cmpOptions(), observer);
        std::string ex = obsText(got, true, T::directed);
        digest = fnv1a(ex, digest);
        if (T::fam == 'W' && opt.exactWeights) {
            char tb[64];
            std::snprintf(tb, sizeof tb, "%La", got.totalW);
            digest = fnv1a(tb, std::strlen(tb), digest);
        }
        if (obsOut)
            *obsOut = got;
        lastExact = ex;
        lastTotalW = got.totalW;
        return r;
    }
    std::string lastExact;
    long double lastTotalW = 0;

    // One full step: apply + compare.  Returns "" or failure text; sets key parts.
    std::string step(const Op &op, std::string &observer) {
        bool noop = false, skipped = false;
        std::string expectExc, gotExc;
        std::string before = lastExact;
        long double beforeW = lastTotalW;
        ++nOps;
        // read the target pair right before the call ...
        unsigned ti = 0, tj = 0;
        bool touched = false, havePair = false;
        {
            const std::string &kk = op.kind;
            bool pairOp = kk == "add" || kk == "add1" || kk == "recip" || kk == "recip1" || kk == "rm" || kk == "rmk" || kk == "setl" || kk == "setm" || kk == "setw" || kk == "churn";
            havePair = pairOp && resolvePair(op, ti, tj);
            if (opt.touch && !opt.safetyOnly && havePair) {
                touched = true;
                std::string r0 = touchPair(ti, tj, (nOps & 1) != 0, observer);
                if (!r0.empty())
                    return "before the call: " + r0;
            }
        }
        std::string applied = apply(op, noop, expectExc, gotExc, skipped);
        if (havePair) {
            if (haveLast && ((lastI == ti && lastJ == tj) || (lastI == tj && lastJ == ti)) && !skipped)
                facts.tag("same_pair_as_previous_op");
            haveLast = true;
            lastI = ti;
            lastJ = tj;
        }
        if (opt.safetyOnly) {
            if (!gotExc.empty())
                facts.tag("call_threw");
            return checkNow(observer);
        }
        if (!applied.empty()) {
            observer = "conversion";
            return applied;
        }
        if (skipped) {
            facts.tag("skipped_op");
            return "";
        }
        if (m.n == 0)
            facts.tag("n_zero");
        if (gotExc != expectExc) {
            observer = "exception";
            return "call threw '" + gotExc + "' but the documented outcome is '" + (expectExc.empty() ? "returns normally" : expectExc) + "'";
        }
        // ... and right after it, the orientation read last before the call first (a memo of the last lookup must not survive)
        if (touched && ti < m.n && tj < m.n) {
            std::string r1 = touchPair(ti, tj, (nOps & 1) == 0, observer);
            if (!r1.empty())
                return "first read after the call: " + r1;
            facts.tag("read_modify_read");
        }
        if (opt.sparseEvery > 1 && (nOps % opt.sparseEvery) != 0) {
            // no full observation after this step
            lastExact.clear();
            facts.tag("unobserved_step");
            return "";
        }
        std::string r = checkNow(observer);
        if (!r.empty())
            return r;
        if (noop && !before.empty()) {
            bool same = lastExact == before;
            if (same && T::fam == 'W') {
                long double d = lastTotalW - beforeW;
                if (d < 0)
                    d = -d;
                if (opt.exactWeights ? d != 0 : d > cmpOptions().weightTol)
                    same = false;
            }
            if (!same) {
                observer = "noop-changed-state";
                return "a call documented to change nothing changed the observable state:\n--- before\n" + before + "--- after\n" + lastExact;
            }
        }
        if (op.kind == "dedup" && opt.prop == "C16")
            return checkEqualsRebuilt(observer);
        return "";
    }

    std::string start(std::string &observer) { return checkNow(observer); }
    // last step of a history (needed when observations are sparse)
    std::string finish(std::string &observer) {
        if (opt.sparseEvery > 1)
            return checkNow(observer);
        return "";
    }

    std::string expectedPair(unsigned i, unsigned j) const {
        const MVal *v = m.find(i, j);
        std::string val;
        if (m.fam == 'L')
            val = m.nolabel ? "-" : (v ? "L" + std::to_string(v->k) : "!invalid_argument");
        else if (m.fam == 'M')
            val = v ? std::to_string(v->k) : "0";
        else
            val = v ? fmtW(v->w) : "!invalid_argument";
        return std::string(v ? "1" : "0") + "|" + val;
    }
    // hasEdge and the throwing getter on (i,j) and (j,i), in the given order, compared with the model
    std::string touchPair(unsigned i, unsigned j, bool reversedFirst, std::string &observer) {
        for (int k = 0; k < 2; ++k) {
            bool rev = (k == 0) == reversedFirst;
            unsigned a = rev ? j : i, b = rev ? i : j;
            std::string val, valnt;
            std::string h = guarded([&] { return std::string(g.hasEdge(a, b) ? "1" : "0"); });
            pairStrings(g, a, b, val, valnt);
            std::string got = h + "|" + val, exp = expectedPair(a, b);
            if (got != exp) {
                observer = T::fam == 'L' ? "getEdgeLabel" : T::fam == 'M' ? "getEdgeMultiplicity" : "getEdgeWeight";
                return "hasEdge|value of (" + std::to_string(a) + "," + std::to_string(b) + ") is " + got + " expected " + exp;
            }
            if (i == j)
                break;
        }
        return "";
    }

    // C16: once no duplicate is left, the graph must equal the one built from the
    // model with unforced calls only.
    std::string checkEqualsRebuilt(std::string &observer) {
        if (m.anyDup())
            return "";
        G h(m.n);
        for (auto &p : m.e) {
            unsigned i = p.first.first, j = p.first.second;
            if constexpr (T::fam == 'L')
                h.addEdge(i, j, mkLabel(p.second.k));
            else if constexpr (T::fam == 'M')
                h.addMultiedge(i, j, (unsigned)p.second.k);
            else
                h.addEdge(i, j, p.second.w);
        }
        facts.tag("eq_rebuilt_checked");
        bool a = (g == h), b = (h == g), c = (g != h);
        if (!a || !b || c) {
            observer = "operator==(rebuilt-without-force)";
            return std::string("after removeDuplicateEdges the graph does not equal the one built from the same pairs without force: g==h ") +
                   (a ? "true" : "false") + ", h==g " + (b ? "true" : "false") + ", g!=h " + (c ? "true" : "false");
        }
        return "";
    }
};

// helper to fill a verif_result
inline void fillResult(verif_result *out, int verdict, bool nontrivial, uint64_t digest, const std::string &key,
                       const std::string &tags, const std::string &msg) {
    out->verdict = verdict;
    out->nontrivial = nontrivial ? 1 : 0;
    out->digest = digest;
    std::snprintf(out->key, sizeof out->key, "%s", key.c_str());
    std::snprintf(out->tags, sizeof out->tags, "%s", tags.c_str());
    std::snprintf(out->message, sizeof out->message, "%s", msg.c_str());
}

inline std::string joinTags(const StepFacts &f) {
    std::string s;
    for (auto &t : f.tags)
        s += t + " ";
    s += "kinds=" + std::to_string(f.kinds.size());
    return s;
}

} // namespace verif
#endif

// Small label alphabets: index k in [0,K) <-> value of type L.  Index 0 is
// always L() (the default-constructed label), all values are pairwise unequal,
// so label equality <=> index equality.
#ifndef VERIF_LABELS_HPP
#define VERIF_LABELS_HPP
#include <climits>
#include <cstdio>
#include <string>

namespace verif {

constexpr int LABEL_K = 12;

struct Tag {
    int a = 0;
    std::string b;
    bool operator==(const Tag &o) const { return a == o.a && b == o.b; }
};

template <class L>
struct LabelCodec;

template <>
struct LabelCodec<int> {
    static const char *name() { return "int"; }
    static int mk(int k) {
        static const int t[LABEL_K] = {0, 1, -1, 2, 7, -3, 100, INT_MAX, INT_MIN, 8, -8, 65536};
        return t[k % LABEL_K];
    }
};
template <>
struct LabelCodec<unsigned> {
    static const char *name() { return "unsigned"; }
    static unsigned mk(int k) {
        static const unsigned t[LABEL_K] = {0, 1, 2, 3, 7, 8, 100, 65535u, 65536u, UINT_MAX, 4, 5};
        return t[k % LABEL_K];
    }
};
template <>
struct LabelCodec<double> {
    static const char *name() { return "double"; }
    static double mk(int k) {
        static const double t[LABEL_K] = {0, 0.125, -0.125, 1, 2.5, -3, 1e10, 1e-10, 0.1, 1.0 / 3, -1e300, 5e-324};
        return t[k % LABEL_K];
    }
};
template <>
struct LabelCodec<char> {
    static const char *name() { return "char"; }
    static char mk(int k) {
        static const char t[LABEL_K] = {'\0', 'a', 'b', ' ', '#', '\n', 'z', 'A', '0', '~', '\x7f', (char)200};
        return t[k % LABEL_K];
    }
};
template <>
struct LabelCodec<std::string> {
    static const char *name() { return "string"; }
    static std::string mk(int k) {
        static const char *t[LABEL_K] = {"",  " ", "a",   "a b", "\xc3\xa9", "0123456789012345678901234567890123456789",
                                        "#", "0", "a\tb", "A",   "aa",       "b"};
        return t[k % LABEL_K];
    }
};
template <>
struct LabelCodec<Tag> {
    static const char *name() { return "struct"; }
    static Tag mk(int k) {
        k %= LABEL_K;
        Tag t;
        if (k == 0)
            return t;
        t.a = (k % 3) - 1; // -1, 0, 1: several tags share a, differ in b
        t.b = std::string(1, char('a' + k));
        if (k == 5)
            t.b = "";      // (1,"")  : differs from default only in a
        if (k == 6) {
            t.a = 0;       // (0,"g") : differs from default only in b
        }
        return t;
    }
};

// an empty class with operator==: a "tag" label.  Every value equals every other, so the alphabet has one element;
// unlike NoLabel it is a real label type (getEdgeLabel on an absent edge must throw).
struct EmptyTag {
    bool operator==(const EmptyTag &) const { return true; }
};
template <>
struct LabelCodec<EmptyTag> {
    static const char *name() { return "empty"; }
    static EmptyTag mk(int) { return EmptyTag(); }
};
template <class L>
struct SingleValued {
    static constexpr bool value = false;
};
template <>
struct SingleValued<EmptyTag> {
    static constexpr bool value = true;
};

// reverse lookup, -1 when the value is not in the alphabet
template <class L>
int labelIndex(const L &v) {
    for (int k = 0; k < LABEL_K; ++k)
        if (LabelCodec<L>::mk(k) == v)
            return k;
    return -1;
}

} // namespace verif
#endif

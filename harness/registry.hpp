// Registration of per-class run functions (each executor part registers the
// classes it instantiates; exec/registry.cpp provides the C entry point).
#ifndef VERIF_REGISTRY_HPP
#define VERIF_REGISTRY_HPP
#include "abi.h"
#include "case.hpp"
#include <map>
#include <string>

namespace verif {
typedef void (*RunFn)(const Case &, verif_result *);
std::map<std::string, RunFn> &registry();
struct Reg {
    Reg(const char *n, RunFn f) { registry()[n] = f; }
};
} // namespace verif
#define VERIF_REGISTER(name, ...) static verif::Reg verif_reg_##name(#name, &run<__VA_ARGS__>);
#endif

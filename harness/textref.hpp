// Independent reference parser of the documented text edge-list format, and
// hex helpers.  Plain C++ (used by executors and by the fuzz targets).
#ifndef VERIF_TEXTREF_HPP
#define VERIF_TEXTREF_HPP
#include <string>
#include <vector>

namespace verif {

inline std::string hexEncode(const std::string &s) {
    static const char *d = "0123456789abcdef";
    std::string o;
    for (unsigned char c : s) {
        o += d[c >> 4];
        o += d[c & 15];
    }
    return o.empty() ? "-" : o;
}
inline std::string hexDecode(const std::string &h) {
    std::string o;
    if (h == "-")
        return o;
    auto v = [](char c) { return (c >= '0' && c <= '9') ? c - '0' : (c >= 'a' && c <= 'f') ? c - 'a' + 10 : (c >= 'A' && c <= 'F') ? c - 'A' + 10 : 0; };
    for (size_t i = 0; i + 1 < h.size(); i += 2)
        o += (char)(v(h[i]) * 16 + v(h[i + 1]));
    return o;
}

struct RefRecord {
    std::string a, b, rest;
};

struct RefParse {
    bool wellFormed = true;     // every non-comment line has two tokens separated by spaces/tabs only
    std::string why;
    std::vector<RefRecord> records;
    size_t commentLines = 0, linesWithTab = 0, linesWithLeadingBlank = 0, labelsWithBlank = 0;
};

inline bool isBlank(char c) { return c == ' ' || c == '\t'; }

// file := line* ; line := '#' any* | ws* tok ws+ tok (ws+ rest | ws*) ; ws = [ \t]+ ; last line with or without '\n'
inline RefParse refParseText(const std::string &text) {
    RefParse r;
    size_t pos = 0;
    while (pos < text.size()) {
        size_t e = text.find('\n', pos);
        if (e == std::string::npos)
            e = text.size();
        std::string line = text.substr(pos, e - pos);
        pos = e + 1;
        if (!line.empty() && line[0] == '#') {
            ++r.commentLines;
            continue;
        }
        for (char c : line)
            if (c == '\r' || c == '\f' || c == '\v' || c == '\0') {
                r.wellFormed = false;
                r.why = "control character other than tab in a line";
            }
        size_t i = 0;
        while (i < line.size() && isBlank(line[i]))
            ++i;
        if (i > 0)
            ++r.linesWithLeadingBlank;
        size_t j = i;
        while (j < line.size() && !isBlank(line[j]))
            ++j;
        RefRecord rec;
        rec.a = line.substr(i, j - i);
        size_t k = j;
        while (k < line.size() && isBlank(line[k]))
            ++k;
        size_t l = k;
        while (l < line.size() && !isBlank(line[l]))
            ++l;
        rec.b = line.substr(k, l - k);
        size_t m = l;
        while (m < line.size() && isBlank(line[m]))
            ++m;
        rec.rest = line.substr(m);
        if (rec.a.empty() || rec.b.empty()) {
            r.wellFormed = false;
            r.why = "a line with fewer than two tokens";
            continue;
        }
        if (line.find('\t') != std::string::npos)
            ++r.linesWithTab;
        if (rec.rest.find(' ') != std::string::npos || rec.rest.find('\t') != std::string::npos)
            ++r.labelsWithBlank;
        r.records.push_back(rec);
    }
    return r;
}

// decimal index token as the index loader documents it: digits only, value small
inline bool decimalIndex(const std::string &t, unsigned long &v, unsigned long maxv) {
    if (t.empty() || t.size() > 9)
        return false;
    v = 0;
    for (char c : t) {
        if (c < '0' || c > '9')
            return false;
        v = v * 10 + (unsigned long)(c - '0');
    }
    return v <= maxv;
}

} // namespace verif
#endif

"""Content-addressed build of executors (against the current BaseGraph tree) and front-ends."""
import concurrent.futures
import hashlib
import os
import subprocess
import sys

VERIF = os.path.dirname(os.path.dirname(os.path.abspath(__file__)))
REPO = os.environ.get("VERIF_REPO", "/repo")
BUILD = os.path.join(VERIF, "build")
NJOBS = int(os.environ.get("VERIF_JOBS", os.cpu_count() or 8))

SAN = "-fsanitize=address,undefined -fno-sanitize-recover=undefined"
CONFIGS = {
    # default for every semantic check: memory errors, UB and violated libstdc++ preconditions abort
    "san": dict(cxx="g++", flags="-std=c++17 -O1 -g " + SAN + " -D_GLIBCXX_DEBUG -D_GLIBCXX_DEBUG_PEDANTIC", ld="-fsanitize=address,undefined"),
    "plain": dict(cxx="clang++", flags="-std=c++17 -O2", ld=""),
    "gccO2": dict(cxx="g++", flags="-std=c++17 -O2 -D_GLIBCXX_ASSERTIONS", ld=""),
    "o0": dict(cxx="g++", flags="-std=c++17 -O0 -g", ld=""),
    "clangasan": dict(cxx="clang++", flags="-std=c++17 -O0 -g -fsanitize=address", ld="-fsanitize=address"),
    "tsan": dict(cxx="clang++", flags="-std=c++17 -O1 -g -fsanitize=thread", ld="-fsanitize=thread"),
    "fuzz": dict(cxx="clang++", flags="-std=gnu++17 -O1 -g -fsanitize=fuzzer-no-link,address,undefined -fno-sanitize-recover=undefined",
                 ld="-fsanitize=fuzzer,address,undefined"),
}

# executor name -> translation units (source, extra defines)
EXECUTORS = {
    "hist": [("exec/exec_hist.cpp", "-DHIST_GROUP=%d" % k) for k in range(10)] + [("exec/exec_hist.cpp", "-DHIST_DISPATCH")],
    "bad": [("exec/exec_bad.cpp", "-DBAD_GROUP=%d" % k) for k in range(8)] + [("exec/exec_bad.cpp", "-DBAD_DISPATCH")],
    "iter": [("exec/exec_iter.cpp", "-DIT_GROUP=%d" % k) for k in range(4)] + [("exec/registry.cpp", '-DVERIF_EXEC_NAME="iter(C08)"')],
    "conv": [("exec/exec_conv.cpp", "-DCV_GROUP=%d" % k) for k in range(6)] + [("exec/registry.cpp", '-DVERIF_EXEC_NAME="conv(C09)"')],
    "sub": [("exec/exec_sub.cpp", "-DSB_GROUP=%d" % k) for k in range(3)] + [("exec/registry.cpp", '-DVERIF_EXEC_NAME="sub(C10)"')],
    "bfs": [("exec/exec_bfs.cpp", "-DBF_GROUP=%d" % k) for k in range(2)] + [("exec/registry.cpp", '-DVERIF_EXEC_NAME="bfs(C11,C19)"')],
    "dij": [("exec/exec_dij.cpp", "-DDJ_GROUP=%d" % k) for k in range(2)] + [("exec/registry.cpp", '-DVERIF_EXEC_NAME="dij(C12,C19)"')],
    "text": [("exec/exec_text.cpp", "-DTX_GROUP=%d" % k) for k in range(5)] + [("exec/registry.cpp", '-DVERIF_EXEC_NAME="text(C13)"')],
    "bin": [("exec/exec_bin.cpp", "-DBN_GROUP=%d" % k) for k in range(4)] + [("exec/registry.cpp", '-DVERIF_EXEC_NAME="bin(C14,C15)"')],
    "conc": [("exec/exec_conc.cpp", "-DCC_GROUP=%d" % k) for k in range(5)] + [("exec/registry.cpp", '-DVERIF_EXEC_NAME="conc(C18)"')],
    "eq": [("exec/exec_eq.cpp", "-DEQ_GROUP=%d" % k) for k in range(6)] + [("exec/exec_eq.cpp", "-DEQ_DISPATCH")],
}

# front-end name -> (sources, link libs)
FRONTENDS = {
    "pbt": (["driver/pbt_main.cpp", "driver/gens_hist.cpp", "driver/gens_registry.cpp", "driver/gens_extra.cpp"], "-lrapidcheck"),
    "replay": (["driver/replay_main.cpp"], ""),
    "enum": (["driver/enum_main.cpp"], ""),
    "fuzz": (["driver/fuzz_main.cpp"], ""),
}
FE_FLAGS = "-std=c++17 -O2 -g"


class BuildError(Exception):
    def __init__(self, what, log):
        Exception.__init__(self, what)
        self.log = log


def _sha(*parts):
    h = hashlib.sha256()
    for p in parts:
        if isinstance(p, str):
            p = p.encode()
        h.update(p)
        h.update(b"\0")
    return h.hexdigest()[:20]


_tree_hash_cache = {}


def tree_hash(root, sub):
    """hash of every file under root/sub (path and content)"""
    key = (root, sub)
    if key in _tree_hash_cache:
        return _tree_hash_cache[key]
    h = hashlib.sha256()
    base = os.path.join(root, sub)
    for d, dirs, files in sorted(os.walk(base)):
        dirs.sort()
        for f in sorted(files):
            p = os.path.join(d, f)
            h.update(os.path.relpath(p, root).encode())
            h.update(b"\0")
            with open(p, "rb") as fh:
                h.update(fh.read())
            h.update(b"\0")
    _tree_hash_cache[key] = h.hexdigest()[:20]
    return _tree_hash_cache[key]


_ver_cache = {}


def _compiler_version(cxx):
    if cxx not in _ver_cache:
        _ver_cache[cxx] = subprocess.run([cxx, "--version"], capture_output=True, text=True).stdout.splitlines()[0]
    return _ver_cache[cxx]


def _compile(cmd, obj):
    os.makedirs(os.path.dirname(obj), exist_ok=True)
    tmp = obj + ".tmp%d" % os.getpid()
    r = subprocess.run(cmd + ["-o", tmp], capture_output=True, text=True)
    if r.returncode != 0:
        try:
            os.unlink(tmp)
        except OSError:
            pass
        return (False, " ".join(cmd) + "\n" + r.stderr[-6000:])
    os.replace(tmp, obj)
    return (True, "")


def executor_objects(name, config, extra_flags="", always_cmd=False):
    """returns list of (object path, compile command or None if cached)"""
    cfg = CONFIGS[config]
    inc = tree_hash(REPO, "include")
    har = tree_hash(VERIF, "harness")
    out = []
    for src, defs in EXECUTORS[name]:
        srcp = os.path.join(VERIF, src)
        with open(srcp, "rb") as fh:
            srch = hashlib.sha256(fh.read()).hexdigest()
        key = _sha(inc, har, srch, cfg["cxx"], _compiler_version(cfg["cxx"]), cfg["flags"], defs, extra_flags)
        obj = os.path.join(BUILD, "obj", key + ".o")
        cmd = [cfg["cxx"]] + cfg["flags"].split() + defs.split() + extra_flags.split() + [
            "-I" + os.path.join(REPO, "include"), "-I" + os.path.join(VERIF, "harness"), "-c", srcp]
        out.append((obj, cmd if always_cmd or not os.path.exists(obj) else None))
    return out


def frontend_objects(name, always_cmd=False):
    srcs, _ = FRONTENDS[name]
    har = tree_hash(VERIF, "harness")
    drv = tree_hash(VERIF, "driver")
    out = []
    for src in srcs:
        srcp = os.path.join(VERIF, src)
        cxx = "g++"
        flags = FE_FLAGS
        if name == "fuzz":
            cxx = "clang++"
            flags = "-std=gnu++17 -O1 -g"
        key = _sha(har, drv, src, cxx, _compiler_version(cxx), flags)
        obj = os.path.join(BUILD, "fe", key + ".o")
        cmd = [cxx] + flags.split() + ["-I" + os.path.join(VERIF, "harness"), "-I" + os.path.join(VERIF, "driver"), "-c", srcp]
        out.append((obj, cmd if always_cmd or not os.path.exists(obj) else None))
    return out


def _commands_for(fe, ex, config):
    """(object, compile command) of every object of a target, whether cached or not"""
    out = []
    for fn, args in ((frontend_objects, (fe,)), (executor_objects, (ex, config))):
        out += fn(*args, always_cmd=True)
    return out


def build_many(targets, log=sys.stderr):
    """targets: list of (frontend, executor, config). Builds everything missing in parallel.
    Returns dict target -> binary path.  Raises BuildError."""
    plan = {}
    compile_jobs = {}
    for t in targets:
        fe, ex, config = t
        objs = frontend_objects(fe) + executor_objects(ex, config)
        for obj, cmd in objs:
            if cmd is not None:
                compile_jobs[obj] = cmd
            else:
                try:
                    os.utime(obj, None)  # in use: the pruner of a concurrent run removes the oldest files first
                except OSError:
                    pass
        key = _sha(fe, ex, config, *[o for o, _ in objs])
        plan[t] = (os.path.join(BUILD, "bin", "%s_%s_%s_%s" % (fe, ex, config, key)), [o for o, _ in objs])
    if compile_jobs:
        print("[build] compiling %d object(s) against %s ..." % (len(compile_jobs), REPO), file=log, flush=True)
        with concurrent.futures.ThreadPoolExecutor(max_workers=NJOBS) as pool:
            futs = {pool.submit(_compile, cmd, obj): obj for obj, cmd in compile_jobs.items()}
            errors = []
            for f in concurrent.futures.as_completed(futs):
                ok, err = f.result()
                if not ok:
                    errors.append(err)
            if errors:
                raise BuildError("compilation failed", "\n".join(errors))
    out = {}
    for t, (binp, objs) in plan.items():
        fe, ex, config = t
        if not os.path.exists(binp):
            os.makedirs(os.path.dirname(binp), exist_ok=True)
            cfg = CONFIGS[config]
            # an object that was cached when the plan was made may have been pruned by a concurrent run: compile it again
            for obj, cmd in _commands_for(fe, ex, config):
                if not os.path.exists(obj):
                    ok, err = _compile(cmd, obj)
                    if not ok:
                        raise BuildError("compilation failed", err)
            cmd = [cfg["cxx"]] + cfg["ld"].split() + objs + FRONTENDS[fe][1].split() + ["-lpthread", "-o", binp + ".tmp%d" % os.getpid()]
            r = subprocess.run(cmd, capture_output=True, text=True)
            if r.returncode != 0:
                raise BuildError("link failed", " ".join(cmd) + "\n" + r.stderr[-6000:])
            os.replace(binp + ".tmp%d" % os.getpid(), binp)
        else:
            try:
                os.utime(binp, None)
            except OSError:
                pass
        out[t] = binp
    return out


def prune_cache(max_bytes=6 << 30):
    """keep the object/binary cache bounded (oldest first)"""
    files = []
    for sub in ("obj", "bin"):
        d = os.path.join(BUILD, sub)
        if not os.path.isdir(d):
            continue
        for f in os.listdir(d):
            p = os.path.join(d, f)
            try:
                st = os.stat(p)
                files.append((st.st_mtime, st.st_size, p))
            except OSError:
                pass
    total = sum(s for _, s, _ in files)
    files.sort()
    for _, s, p in files:
        if total <= max_bytes:
            break
        try:
            os.unlink(p)
            total -= s
        except OSError:
            pass

"""C20: the compilers as oracle over a matrix of generated client programs."""
import concurrent.futures
import hashlib
import json
import os
import subprocess
import sys
import time

from . import build

VERIF = build.VERIF
sys.path.insert(0, os.path.join(VERIF, "progmatrix"))
import catalogue  # noqa: E402

COMPILERS = ["g++", "clang++"]


def includes(order):
    return "".join('#include "%s"\n' % h for h in order)


def bundle_source(kind, cells, header_order, with_main):
    src = includes(header_order) + catalogue.PRELUDE
    # Plain must keep a trivial default constructor (binary IO puts the label in a union)
    src = src.replace("struct Plain { int a = 0; double b = 0; };", "struct Plain { int a; double b; };")
    names = []
    for k, (cid, body) in enumerate(cells):
        fn = "cell_%d" % k
        names.append((fn, cid))
        src += "// cell %s\nstatic void %s() {\n    %s\n}\n" % (cid, fn, body)
    if with_main:
        src += "int verifprog_other_tu();\nint main() {\n"
        for fn, cid in names:
            src += "    %s();\n" % fn
        src += "    return verifprog_other_tu();\n}\n"
    else:
        src += "void verifprog_use_all() {\n" + "".join("    %s();\n" % fn for fn, _ in names) + "}\n"
    return src


def compile_cmd(cxx, std, repo, extra):
    return [cxx, "-std=" + std, "-w", "-I" + os.path.join(repo, "include")] + extra


def run(cmd, timeout=600, env=None):
    try:
        r = subprocess.run(cmd, capture_output=True, text=True, timeout=timeout, env=env)
        return r.returncode, (r.stdout + r.stderr)
    except subprocess.TimeoutExpired:
        return None, "timeout"


def first_error(log):
    for l in log.splitlines():
        if "error" in l:
            return l.strip()[:400]
    return log.strip()[:400]


def c20_job(ctx):
    tier, seed, scratch = ctx["tier"], ctx["seed"], ctx["scratch"]
    repo = build.REPO
    stds = ["c++14", "c++17"] if tier == "quick" else ["c++14", "c++17", "c++20"]
    t0 = time.time()
    work = os.path.join(scratch, "c20")
    os.makedirs(work, exist_ok=True)
    H = catalogue.HEADERS
    tasks = []   # (name, cmd, meta)

    def add(name, cmd, meta):
        tasks.append((name, cmd, meta))

    # ---- 1. matrix bundles: one TU per (label kind, standard, compiler), syntax only
    cells_by_kind = {k: catalogue.instances(k, "c++14") for k in catalogue.KINDS}   # programs that must build under every standard
    cells_by = {(k, std): catalogue.instances(k, std) for k in catalogue.KINDS for std in stds}
    for kind in catalogue.KINDS:
        for std in stds:
            p = os.path.join(work, "bundle_%s_%s.cpp" % (kind, std.replace("+", "p")))
            open(p, "w").write(bundle_source(kind, cells_by[(kind, std)], H, False))
            for cxx in COMPILERS:
                add("bundle", compile_cmd(cxx, std, repo, ["-fsyntax-only", p]), dict(kind=kind, std=std, cxx=cxx, src=p))
    # ---- 2. every header on its own, once and twice
    for h in H:
        for twice in (1, 2):
            p = os.path.join(work, "hdr_%s_%d.cpp" % (h.replace("/", "_").replace(".", "_"), twice))
            open(p, "w").write(includes([h] * twice) + "int main() { return 0; }\n")
            for std in stds:
                for cxx in COMPILERS:
                    add("header", compile_cmd(cxx, std, repo, ["-fsyntax-only", p]), dict(header=h, twice=twice, std=std, cxx=cxx, src=p))
    # ---- 2b. the repository's own documented examples (examples/*.cpp)
    exdir = os.path.join(repo, "examples")
    if os.path.isdir(exdir):
        for fn in sorted(os.listdir(exdir)):
            if fn.endswith(".cpp"):
                for std in stds:
                    for cxx in COMPILERS:
                        add("example", compile_cmd(cxx, std, repo, ["-fsyntax-only", os.path.join(exdir, fn)]), dict(example=fn, std=std, cxx=cxx, src=os.path.join(exdir, fn)))
    results = {}
    with concurrent.futures.ThreadPoolExecutor(max_workers=build.NJOBS) as pool:
        futs = {pool.submit(run, cmd): (name, cmd, meta) for name, cmd, meta in tasks}
        for f in concurrent.futures.as_completed(futs):
            results[id(futs[f][2])] = (futs[f], f.result())

    violations = []
    evaluations = 0
    nontrivial = set()
    samples = []
    failed_bundles = []
    for (name, cmd, meta), (rc, log) in results.values():
        if name == "bundle":
            ncells = len(cells_by[(meta["kind"], meta["std"])])
            evaluations += ncells
            if rc == 0:
                if meta["kind"] not in ("none", "int"):
                    for cid, _ in cells_by[(meta["kind"], meta["std"])]:
                        nontrivial.add("%s|%s|%s" % (cid, meta["std"], meta["cxx"]))
            else:
                failed_bundles.append((meta, log))
        elif name == "example":
            evaluations += 1
            nontrivial.add("example|%s|%s|%s" % (meta["example"], meta["std"], meta["cxx"]))
            if rc != 0:
                violations.append(dict(case="// c20-program\n// compile: %s -std=%s -fsyntax-only\n%s" % (meta["cxx"], meta["std"], open(meta["src"]).read()),
                                       message="documented example examples/%s does not compile with %s -std=%s: %s" % (meta["example"], meta["cxx"], meta["std"], first_error(log)),
                                       key="example|%s" % meta["example"], executor="c20", config=meta["cxx"], crashed=False))
        else:
            evaluations += 1
            if meta["twice"] == 2:
                nontrivial.add("hdr2|%s|%s|%s" % (meta["header"], meta["std"], meta["cxx"]))
            if rc != 0:
                src = open(meta["src"]).read()
                violations.append(dict(case="// c20-program\n// compile: %s -std=%s -fsyntax-only\n%s" % (meta["cxx"], meta["std"], src),
                                       message="header %s included %s does not compile with %s -std=%s: %s" % (meta["header"], "twice" if meta["twice"] == 2 else "on its own", meta["cxx"], meta["std"], first_error(log)),
                                       key="header|%s|x%d" % (meta["header"], meta["twice"]), executor="c20", config=meta["cxx"], crashed=False))
    # ---- bisect failing bundles cell by cell
    bis = []
    for meta, log in failed_bundles:
        for cid, body in cells_by[(meta["kind"], meta["std"])]:
            p = os.path.join(work, "cell_%s.cpp" % hashlib.sha1((cid + meta["std"] + meta["cxx"]).encode()).hexdigest()[:12])
            open(p, "w").write(bundle_source(meta["kind"], [(cid, body)], H, False))
            bis.append((cid, meta, p, compile_cmd(meta["cxx"], meta["std"], repo, ["-fsyntax-only", p])))
    if bis:
        with concurrent.futures.ThreadPoolExecutor(max_workers=build.NJOBS) as pool:
            futs = {pool.submit(run, b[3]): b for b in bis}
            for f in concurrent.futures.as_completed(futs):
                cid, meta, p, cmd = futs[f]
                rc, log = f.result()
                if rc != 0:
                    violations.append(dict(case="// c20-program\n// compile: %s -std=%s -fsyntax-only\n%s" % (meta["cxx"], meta["std"], open(p).read()),
                                           message="documented entry point `%s` does not compile with %s -std=%s: %s" % (cid, meta["cxx"], meta["std"], first_error(log)),
                                           key="cell|%s" % cid, executor="c20", config=meta["cxx"], crashed=False))
                elif meta["kind"] not in ("none", "int"):
                    nontrivial.add("%s|%s|%s" % (cid, meta["std"], meta["cxx"]))
    # ---- 3. per label kind a two-TU program including every header (different orders, some twice), linked and run
    prog_tasks = []
    for ki, kind in enumerate(catalogue.KINDS):
        order1 = H[ki % len(H):] + H[:ki % len(H)] + [H[(ki + 3) % len(H)], H[-1]]
        order2 = list(reversed(H)) + H
        a = os.path.join(work, "prog_%s_a.cpp" % kind)
        b = os.path.join(work, "prog_%s_b.cpp" % kind)
        open(a, "w").write(bundle_source(kind, cells_by_kind[kind], order1, True))
        open(b, "w").write(includes(order2) + catalogue.PRELUDE.replace("struct Plain { int a = 0; double b = 0; };", "struct Plain { int a; double b; };") +
                           "int verifprog_other_tu() {\n    BaseGraph::DirectedGraph g(3); g.addEdge(0, 1); BaseGraph::UndirectedWeightedGraph w(2); w.addEdge(0, 1, 1.5);\n"
                           "    auto p = BaseGraph::algorithms::findVertexPredecessors(g, 0); auto d = BaseGraph::algorithms::findGeodesicsDijkstra(w, 0);\n"
                           "    std::unordered_set<BaseGraph::VertexIndex> s = {0, 1}; auto sub = BaseGraph::algorithms::getSubgraph(g, s);\n"
                           "    return (p.first[1] == 1 && d.first[1] == 1.5 && sub.getEdgeNumber() == 1 && !BaseGraph::io::SYSTEM_IS_BIG_ENDIAN) ? 0 : 3;\n}\n")
        cxx = COMPILERS[ki % 2]
        std = stds[ki % len(stds)]
        exe = os.path.join(work, "prog_%s" % kind)
        prog_tasks.append((kind, cxx, std, a, b, exe))

    def build_and_run(t):
        kind, cxx, std, a, b, exe = t
        rc, log = run(compile_cmd(cxx, std, repo, ["-O0", a, b, "-o", exe]))
        if rc != 0:
            return t, "build", log
        env = os.environ.copy()
        env["VERIF_SCRATCH"] = work
        rc, log = run([exe], timeout=120, env=env)
        if rc != 0:
            return t, "run", "exit status %s\n%s" % (rc, log)
        return t, None, ""

    with concurrent.futures.ThreadPoolExecutor(max_workers=build.NJOBS) as pool:
        for t, stage, log in pool.map(build_and_run, prog_tasks):
            kind, cxx, std, a, b, exe = t
            evaluations += 1
            if stage is None:
                nontrivial.add("prog|%s|%s|%s" % (kind, std, cxx))
                if len(samples) < 2:
                    samples.append("two-TU program for label kind %s (%s -std=%s): %d snippets, every header included in two orders, some twice; linked and run" % (kind, cxx, std, len(cells_by_kind[kind])))
            else:
                violations.append(dict(case="// c20-program\n// compile: %s -std=%s (two TUs, link and run; this is TU a)\n// second TU:\n%s\n%s" % (cxx, std, "".join("// " + l + "\n" for l in open(b).read().splitlines()), open(a).read()),
                                       message="two-translation-unit client program for label kind %s fails to %s with %s -std=%s: %s" % (kind, stage, cxx, std, first_error(log)),
                                       key="program|%s|%s" % (kind, stage), executor="c20", config=cxx, crashed=False))
    # ---- 4. (thorough) Hypothesis-generated programs: random include orders/multiplicities, snippet subsets, 1-3 TUs
    hyp = None
    if tier != "quick":
        hw = os.path.join(work, "hyp")
        n = int(os.environ.get("VERIF_C20_PROGRAMS", "150"))
        rc, out = run(["python3-vt", os.path.join(VERIF, "lib", "c20_hyp.py"), "--seed", str(seed), "--n", str(n), "--repo", repo, "--work", hw, "--stds", ",".join(stds)], timeout=7200)
        try:
            hyp = json.loads(out.strip().splitlines()[-1])
        except Exception:
            return dict(evaluations=evaluations, hashes=[], distinct_nontrivial_extra=len(nontrivial), violations=violations, samples=samples,
                        broken="the Hypothesis program generator did not produce a result: %s" % out[-500:])
        evaluations += hyp["stats"]["programs"]
        for k in range(hyp["stats"]["nontrivial"]):
            nontrivial.add("hyp|%d" % k)
        samples += hyp["stats"]["samples"]
        f = hyp.get("failure")
        if f:
            text = "// c20-program\n// compile: %s -std=%s mode=link\n" % (f["prog"].get("cxx", "g++"), f["prog"].get("std", "c++14"))
            for k, src in enumerate(f["sources"]):
                text += "// ---- TU %d ----\n%s" % (k, src)
            violations.append(dict(case=text, message="generated client program (label kind %s, cells %s) fails to %s with %s -std=%s: %s" %
                                   (f["prog"].get("kind"), f["cells"], f["stage"], f["prog"].get("cxx"), f["prog"].get("std"), f["first"]),
                                   key="program|generated|%s" % f["stage"], executor="c20", config=f["prog"].get("cxx", "g++"), crashed=False))
    for kind in list(catalogue.KINDS)[:3]:
        cid, body = cells_by_kind[kind][min(5, len(cells_by_kind[kind]) - 1)]
        samples.append("cell %s: %s" % (cid, body.replace("\n", " ")[:300]))
    return dict(evaluations=evaluations, hashes=[], distinct_nontrivial_extra=len(nontrivial), violations=violations, samples=samples, exhaustive=True,
                matrix=dict(label_kinds=list(catalogue.KINDS), standards=stds, compilers=COMPILERS, snippets=len(catalogue.S),
                            cells_per_kind={k: len(v) for k, v in cells_by_kind.items()}, headers=len(H)), generated_programs=(hyp or {}).get("stats"),
                wall_s=round(time.time() - t0, 1))


def c20_replay(pid, path, text):
    """replay file = the failing program (one or several TUs); rebuild it against the current tree"""
    if "// c20-program" not in text:
        return None
    import re
    import shutil
    m = re.search(r"^// compile: (\S+) -std=(\S+)(?: mode=(\S+))?", text, re.M)
    cxx, std, mode = (m.group(1), m.group(2), m.group(3) or "syntax") if m else ("g++", "c++14", "syntax")
    from . import runner
    scratch = runner.make_scratch()
    try:
        parts = re.split(r"^// ---- TU \d+ ----\n", text, flags=re.M)
        tus = parts[1:] if len(parts) > 1 else [text]
        paths = []
        for k, src in enumerate(tus):
            p = os.path.join(scratch, "replay_tu%d.cpp" % k)
            open(p, "w").write(src)
            paths.append(p)
        if mode == "link":
            exe = os.path.join(scratch, "replay_prog")
            rc, log = run(compile_cmd(cxx, std, build.REPO, ["-O0"] + paths + ["-o", exe]))
            if rc == 0:
                env = os.environ.copy()
                env["VERIF_SCRATCH"] = scratch
                rc, log = run([exe], timeout=120, env=env)
        else:
            rc, log = run(compile_cmd(cxx, std, build.REPO, ["-fsyntax-only"] + paths))
    finally:
        shutil.rmtree(scratch, ignore_errors=True)
    print(log[-3000:])
    if rc != 0:
        print("VIOLATION property=%s replay=%s" % (pid, path))
        return 1
    print("replay passes: the program builds%s with %s -std=%s" % (" and runs" if mode == "link" else "", cxx, std))
    return 0

#!/usr/bin/env python3
"""Hypothesis-generated client programs for C20 (run with the tooling venv: python3-vt).

A program = 1-3 translation units; each includes the headers in a generated order with generated
repetitions and uses a generated subset of the applicable catalogue snippets for a generated label
kind; generated standard and compiler.  Oracle: compiles, links, runs with exit status 0.
Prints one JSON object on stdout.
"""
import argparse
import json
import os
import subprocess
import sys

HERE = os.path.dirname(os.path.abspath(__file__))
sys.path.insert(0, os.path.join(os.path.dirname(HERE), "progmatrix"))
import catalogue  # noqa: E402

from hypothesis import HealthCheck, given, seed, settings  # noqa: E402
from hypothesis import strategies as st  # noqa: E402

ap = argparse.ArgumentParser()
ap.add_argument("--seed", type=int, default=1)
ap.add_argument("--n", type=int, default=100)
ap.add_argument("--repo", default="/repo")
ap.add_argument("--work", required=True)
ap.add_argument("--stds", default="c++14,c++17,c++20")
args = ap.parse_args()
os.makedirs(args.work, exist_ok=True)
STDS = args.stds.split(",")
CELLS = {k: catalogue.instances(k, "c++14") for k in catalogue.KINDS}
stats = dict(programs=0, nontrivial=0, multi_tu=0, header_twice=0, samples=[])
failure = {}


@st.composite
def tus(draw, kind):
    n = draw(st.integers(1, 3))
    out = []
    for t in range(n):
        order = draw(st.permutations(catalogue.HEADERS))
        extra = draw(st.lists(st.sampled_from(catalogue.HEADERS), max_size=5))
        pos = draw(st.lists(st.integers(0, len(order) + 5), min_size=len(extra), max_size=len(extra)))
        hdrs = list(order)
        for h, p in zip(extra, pos):
            hdrs.insert(min(p, len(hdrs)), h)
        cells = draw(st.lists(st.sampled_from(CELLS[kind]), min_size=1, max_size=12, unique_by=lambda c: c[0]))
        out.append((hdrs, cells))
    return out


@st.composite
def program(draw):
    kind = draw(st.sampled_from(sorted(catalogue.KINDS)))
    return dict(kind=kind, std=draw(st.sampled_from(STDS)), cxx=draw(st.sampled_from(["g++", "clang++"])), tus=draw(tus(kind)))


def sources(prog):
    srcs = []
    n = len(prog["tus"])
    for t, (hdrs, cells) in enumerate(prog["tus"]):
        s = "".join('#include "%s"\n' % h for h in hdrs) + catalogue.PRELUDE
        for k, (cid, body) in enumerate(cells):
            s += "// cell %s\nstatic void cell_%d_%d() {\n    %s\n}\n" % (cid, t, k, body)
        s += "int verifprog_tu%d() {\n%s    return 0;\n}\n" % (t, "".join("    cell_%d_%d();\n" % (t, k) for k in range(len(cells))))
        if t == 0:
            s += "".join("int verifprog_tu%d();\n" % u for u in range(1, n))
            s += "int main() {\n    int r = verifprog_tu0();\n%s    return r;\n}\n" % "".join("    r += verifprog_tu%d();\n" % u for u in range(1, n))
        srcs.append(s)
    return srcs


def build_run(prog):
    d = os.path.join(args.work, "p%d" % stats["programs"])
    os.makedirs(d, exist_ok=True)
    paths = []
    for t, s in enumerate(sources(prog)):
        p = os.path.join(d, "tu%d.cpp" % t)
        open(p, "w").write(s)
        paths.append(p)
    exe = os.path.join(d, "prog")
    r = subprocess.run([prog["cxx"], "-std=" + prog["std"], "-w", "-O0", "-I" + os.path.join(args.repo, "include")] + paths + ["-o", exe], capture_output=True, text=True)
    if r.returncode != 0:
        return "build", r.stderr
    env = os.environ.copy()
    env["VERIF_SCRATCH"] = d
    r = subprocess.run([exe], capture_output=True, text=True, env=env, timeout=120)
    if r.returncode != 0:
        return "run", "exit status %d\n%s" % (r.returncode, r.stderr)
    return None, ""


@seed(args.seed)
@settings(max_examples=args.n, database=None, deadline=None, report_multiple_bugs=False, suppress_health_check=list(HealthCheck), derandomize=False)
@given(program())
def check(prog):
    stage, log = build_run(prog)
    stats["programs"] += 1
    twice = any(len(h) != len(set(h)) for h, _ in prog["tus"])
    if len(prog["tus"]) >= 2:
        stats["multi_tu"] += 1
    if twice:
        stats["header_twice"] += 1
    if twice or len(prog["tus"]) >= 2:
        stats["nontrivial"] += 1
    if len(stats["samples"]) < 2 and stage is None:
        stats["samples"].append("%s -std=%s kind=%s: %d TU(s), includes %s, cells %s" % (prog["cxx"], prog["std"], prog["kind"], len(prog["tus"]),
                                                                                  [[h.split("/")[-1] for h in hs] for hs, _ in prog["tus"]], [[c[0] for c in cs] for _, cs in prog["tus"]]))
    if stage is not None:
        failure.clear()
        first = [l for l in log.splitlines() if "error" in l][:1]
        failure.update(stage=stage, log=log[-3000:], first=(first[0] if first else log[:300]), prog=dict(kind=prog["kind"], std=prog["std"], cxx=prog["cxx"]), sources=sources(prog),
                       cells=[[c[0] for c in cs] for _, cs in prog["tus"]])
        raise AssertionError("client program fails to %s" % stage)


try:
    check()
except AssertionError:
    pass
except Exception as e:  # hypothesis wraps failures
    if not failure:
        failure.update(stage="harness", log=repr(e), first=repr(e), prog={}, sources=[], cells=[])
print(json.dumps(dict(stats=stats, failure=failure or None)))

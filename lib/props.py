"""Property table: what each check runs per tier."""

L6 = ["int", "unsigned", "double", "char", "string", "struct"]
L7 = L6 + ["empty"]  # + an empty class with operator== (a "tag" label)


def _classes(kinds, labels=("int", "string", "struct")):
    out = []
    for k in kinds:
        if k in ("DL", "UL"):
            out += ["%s:%s" % (k, l) for l in labels]
        else:
            out.append("%s:none" % k)
    return ";".join(out)


def _mix(d):
    return ";".join("%s:%d" % kv for kv in d.items())


def _n(tier, quick, thorough, scale, floor=50):
    return max(floor, int((quick if tier == "quick" else thorough) * scale))


def hist_job(prop, classes, mix, tier, scale, quick, thorough, label, shards=None, max_size=None, **cfg):
    c = dict(prop=prop, classes=classes, mix=_mix(mix))
    c.update({k: str(v) for k, v in cfg.items()})
    return dict(engine="pbt", executor="hist", config="san", gen="hist", cfg=c, cases=_n(tier, quick, thorough, scale),
                shards=shards or (8 if tier == "quick" else 16), max_size=max_size or (50 if tier == "quick" else 80), label=label)


# ------------------------------------------------------------------ C01
def jobs_C01(tier, scale):
    mix = dict(add=45, recip=12, rm=20, rmloops=5, rmvtx=6, clear=4, resize=8)
    q = tier == "quick"
    cl = _classes(["DS", "DL"], ["int", "double", "string", "struct", "empty"])
    mixb = dict(mix, fill=12, dedup=4)
    mixh = dict(mix, fill=12, dedup=10)
    return [hist_job("C01", cl, dict(mix, dedup=2, churn=2), tier, scale, 16000, 400000, "directed histories vs set model"),
            hist_job("C01", cl, mix, tier, scale, 3000, 80000, "histories observed only after every 2nd-5th operation (several mutations between observations)", sparse_pct=100),
            hist_job("C01", _classes(["DS", "DL"], ["int"]), mixb, tier, scale, 500, 12000, "graphs with 33-70 vertices, `fill` gives degrees up to 90", bign_pct=100, max_size=40),
            hist_job("C01", _classes(["DS", "DL"], ["int"]), mixh, tier, scale, 1500, 30000, "graphs with 129-700 vertices (light observation: lists, counts, degrees, edges(), sampled pairs)", huge_pct=100, max_size=30),
            enum_job("hist", "histmask", dict(prop="C01", classes=_classes(["DS", "DL"], ["int"]), dmin=0, dmax=2 if q else 3, orders=2 if q else 3), tier,
                     "every directed edge set on <=%d vertices, built in several insertion orders, then every single mutator once" % (2 if q else 3))]


def jobs_C02(tier, scale):
    mix = dict(add=50, rm=22, rmloops=6, rmvtx=9, clear=4, resize=8)
    q = tier == "quick"
    cl = _classes(["US", "UL"], ["int", "double", "string", "struct", "empty"])
    mixb = dict(mix, fill=12, dedup=4)
    mixh = dict(mix, fill=12, dedup=10)
    return [hist_job("C02", cl, dict(mix, dedup=2, churn=2), tier, scale, 16000, 400000, "undirected histories vs set model"),
            hist_job("C02", cl, mix, tier, scale, 3000, 80000, "histories observed only after every 2nd-5th operation", sparse_pct=100),
            hist_job("C02", _classes(["US", "UL"], ["int"]), mixb, tier, scale, 500, 12000, "graphs with 33-70 vertices, `fill` gives degrees up to 90", bign_pct=100, max_size=40),
            hist_job("C02", _classes(["US", "UL"], ["int"]), mixh, tier, scale, 1500, 30000, "graphs with 129-700 vertices (light observation)", huge_pct=100, max_size=30),
            enum_job("hist", "histmask", dict(prop="C02", classes=_classes(["US", "UL"], ["int"]), umin=0, umax=3 if q else 4, orders=2 if q else 3), tier,
                     "every undirected edge set on <=%d vertices, several insertion orders/orientations, then every single mutator once" % (3 if q else 4))]


def jobs_C03(tier, scale):
    mix = dict(add=38, setl=22, rm=12, rmloops=6, rmvtx=8, clear=5, resize=4, recip=5, churn=2)
    q = tier == "quick"
    return [hist_job("C03", _classes(["DL", "UL"], L7), mix, tier, scale, 16000, 400000, "label lifetime histories"),
            hist_job("C03", _classes(["DL", "UL"], ["int", "string"]), mix, tier, scale, 3000, 80000, "label histories observed only after every 2nd-5th operation", sparse_pct=100),
            enum_job("hist", "histmask", dict(prop="C03", classes="DL:string;UL:struct", dmin=1, dmax=2, umin=1, umax=3 if q else 4, orders=2), tier,
                     "every labelled edge set of the small scopes, then every single mutator once (labels of all pairs read after it)")]


def jobs_C04(tier, scale):
    mix = dict(add1=15, add=25, recip1=3, recip=3, rm=10, rmk=12, setm=15, rmloops=5, rmvtx=6, clear=3, resize=4, churn=2)
    return [hist_job("C04", _classes(["DM", "UM"]), mix, tier, scale, 16000, 400000, "multigraph histories"),
            hist_job("C04", _classes(["DM", "UM"]), mix, tier, scale, 3000, 80000, "multigraph histories observed only after every 2nd-5th operation", sparse_pct=100),
            hist_job("C04", _classes(["DM", "UM"]), dict(mix, fill=8), tier, scale, 500, 12000, "multigraphs with 129-700 vertices, few edges (light observation)", huge_pct=100, max_size=30)]


def jobs_C05(tier, scale):
    mix = dict(add=35, setw=25, rm=12, rmloops=6, rmvtx=8, clear=4, resize=5, churn=2)
    return [hist_job("C05", _classes(["DW", "UW"]), mix, tier, scale, 8000, 200000, "weighted histories, exact weights", mode="exact"),
            hist_job("C05", _classes(["DW", "UW"]), mix, tier, scale, 8000, 200000, "weighted histories, rounded weights", mode="rounded"),
            hist_job("C05", _classes(["DW", "UW"]), mix, tier, scale, 3000, 80000, "weighted histories observed only after every 2nd-5th operation", mode="both", sparse_pct=100),
            hist_job("C05", _classes(["DW", "UW"]), dict(mix, fill=8), tier, scale, 400, 10000, "weighted graphs with 129-700 vertices (light observation)", mode="exact", huge_pct=100, max_size=30)]


def jobs_C16(tier, scale):
    mixL = dict(add=55, rm=15, dedup=15, resize=5)
    mixMW = dict(add=85, dedup=8, resize=5)
    return [hist_job("C16", _classes(["DS", "US", "DL", "UL"], ["int", "string"]), mixL, tier, scale, 10000, 250000, "forced duplicates, simple and labelled", force=50, pairvalues=1),
            hist_job("C16", _classes(["DM", "UM"]), dict(add=70, fill=15, dedup=10), tier, scale, 200, 5000,
                     "forced duplicates on multigraphs with 33-80 vertices, `fill` gives degrees above 64", force=100, pairvalues=1, bign_pct=100, max_size=60, final="dedup"),
            hist_job("C16", _classes(["DS", "US", "DL", "UL", "DW", "UW"], ["int"]), dict(add=60, fill=15, rm=8, dedup=12), tier, scale, 600, 15000,
                     "forced duplicates on graphs with 33-80 vertices, `fill` gives degrees above 64", force=50,
                     pairvalues=1, bign_pct=100, max_size=60, final="dedup"),
            hist_job("C16", _classes(["DW", "UW"]), mixMW, tier, scale, 4000, 100000, "forced duplicates, weighted", force=60, pairvalues=1, final="dedup"),
            hist_job("C16", _classes(["DM", "UM"]), mixMW, tier, scale, 3000, 80000, "forced duplicates, multigraphs", force=100, pairvalues=1, final="dedup"),
            hist_job("C16", _classes(["DM", "UM"]), mixMW, tier, scale, 2000, 50000, "forced duplicates, multigraphs, per-pair multiplicities of several 10^8 (totals beyond 2^32)", force=100, pairvalues=1,
                     bigmult=1, final="dedup")]


def jobs_C06(tier, scale):
    mix = dict(add=40, add1=8, recip=4, rm=12, rmk=6, setl=10, setm=10, setw=10, rmloops=5, rmvtx=7, clear=4, resize=6, xcopy=6)
    c = dict(classes=_classes(["DS", "US", "DM", "UM", "DW", "UW", "DL", "UL"]), mix=_mix(mix))
    cb = dict(classes=_classes(["DS", "US", "DM", "UM", "DW", "UW", "DL", "UL"], ["int", "string"]), mix=_mix(dict(mix, fill=25)), bign_pct="100")
    return [dict(engine="pbt", executor="eq", config="san", gen="eq", cfg=c, cases=_n(tier, 16000, 400000, scale), shards=8 if tier == "quick" else 16,
                 max_size=40 if tier == "quick" else 70, label="pairs of histories: rebuilt / one difference / one edge moved / independent / copies"),
            dict(engine="pbt", executor="eq", config="san", gen="eq", cfg=cb, cases=_n(tier, 400, 10000, scale), shards=8 if tier == "quick" else 16,
                 max_size=25, label="the same on graphs with 66-80 vertices and degrees above 64")]


def jobs_C07(tier, scale):
    mix = dict(add=30, add1=5, recip=3, rm=8, rmk=3, setl=6, setm=5, setw=5, rmloops=2, rmvtx=4, clear=2, resize=5, bad=30, shrink=4)
    c = dict(prop="C07", classes=_classes(["DS", "US", "DM", "UM", "DW", "UW", "DL", "UL"], ["int", "string"]), mix=_mix(mix), zero_pct="8")
    c2 = dict(c)
    c2["final"] = "badall"
    q = 8 if tier == "quick" else 16
    return [dict(engine="pbt", executor="bad", config="san", gen="hist", cfg=c, cases=_n(tier, 12000, 300000, scale), shards=q, max_size=40 if tier == "quick" else 70,
                 label="rejected calls interleaved with valid ones (random cells of the matrix)"),
            dict(engine="pbt", executor="bad", config="san", gen="hist", cfg=c2, cases=_n(tier, 1600, 40000, scale), shards=q, max_size=25,
                 label="complete matrix {entry point x argument position x bad value x flags} at the final state of each history")]


ALL8 = ["DS", "US", "DL", "UL", "DM", "UM", "DW", "UW"]


def enum_job(executor, name, cfg, tier, label, shards=None, config="san"):
    return dict(engine="enum", executor=executor, config=config, gen=name, cfg={k: str(v) for k, v in cfg.items()}, shards=shards or 16, label=label)


def jobs_C08(tier, scale):
    cl = _classes(ALL8, ["int", "string"])
    pads = "0:0;1:0;0:2;2:1"
    sparse = graph_job("C08", "iter", cl, tier, scale, 3000, 80000, "generated sparse graphs up to 14 vertices with isolated runs at both ends", nmax=14, pads=1, max_size=40)
    hmix = dict(add=40, add1=5, recip=4, rm=18, rmk=5, setl=4, setm=5, setw=4, rmloops=4, rmvtx=5, clear=3, resize=6)
    hist = hist_job("C08", cl, hmix, tier, scale, 3000, 80000,
                    "histories: edges()/vertex iteration and everything built on it observed after every 1st-5th mutation (an iteration must not depend on an earlier one)", sparse_pct=70)
    ring = graph_job("C08", "iter", _classes(ALL8, ["int"]), tier, scale, 40, 800, "graphs with 150-200 vertices and 6000-12000 edges (each vertex joined to the next 40-60)", ring_pct=100, max_size=20)
    if tier == "quick":
        return [ring, enum_job("iter", "graphs", dict(prop="C08", classes=cl, dmin=0, dmax=3, umin=0, umax=4, orders=3, pads=pads, writers_n=2), tier,
                         "every directed graph on 0..3 and undirected on 0..4 vertices x 3 insertion orders x 4 isolated-vertex paddings, 10 class/label configs"), sparse, hist]
    return [sparse, hist, ring, enum_job("iter", "graphs", dict(prop="C08", classes=cl, dmin=0, dmax=3, umin=0, umax=4, orders=4, pads=pads, writers_n=3), tier, "small scopes, all paddings"),
            enum_job("iter", "graphs", dict(prop="C08", classes=_classes(["DS", "DL", "DM", "DW"], ["int"]), dmin=4, dmax=4, orders=2, pads="0:0;1:1", writers_n=-1), tier,
                     "every directed graph on 4 vertices (65536) x 2 orders x 2 paddings x 4 classes"),
            enum_job("iter", "graphs", dict(prop="C08", classes=_classes(["US", "UL", "UM", "UW"], ["int"]), umin=5, umax=5, orders=2, pads="0:0;1:1", writers_n=-1), tier,
                     "every undirected graph on 5 vertices (32768) x 2 orders x 2 paddings x 4 classes")]


def graph_job(prop, executor, classes, tier, scale, quick, thorough, label, config="san", max_size=None, floor=50, **cfg):
    c = dict(prop=prop, classes=classes)
    c.update({k: str(v) for k, v in cfg.items()})
    job = dict(engine="pbt", executor=executor, config=config, gen="graph", cfg=c, cases=_n(tier, quick, thorough, scale, floor), shards=8 if tier == "quick" else 16,
               max_size=max_size or (60 if tier == "quick" else 100), label=label)
    if cfg.get("ring_pct") or cfg.get("big_pct") or cfg.get("noshrink") or "dense_auto" in str(cfg.get("extra", "")):
        job["extra"] = dict(noshrink=1)  # single cases take seconds; a failing one is reported as generated
    return job


def jobs_C09(tier, scale):
    cl = _classes(ALL8)
    hmix = dict(add=40, add1=4, recip=5, rm=10, rmk=3, setl=15, setm=8, setw=8, rmvtx=4, rmloops=2, clear=2, resize=4, xrev=10, xconv=8, xcopy=12)
    jobs = [hist_job("C09", _classes(ALL8, ["int", "string", "struct"]), hmix, tier, scale, 6000, 150000,
                     "histories with reversals, conversions, copy / self-assignment / move round trips and rebuilds through the container constructors between the mutations"),
            graph_job("C09", "conv", cl, tier, scale, 12000, 300000, "generated graphs (loops, reciprocal pairs with different labels, repeated pairs, isolated vertices; values also set through the setters)", nmax=9, pads=1, sets=8),
            graph_job("C09", "conv", cl, tier, scale, 40, 800, "graphs with 66-100 vertices and vertices of degree above 64", big_pct=100, max_size=30),
            graph_job("C09", "conv", cl, tier, scale, 8, 160, "graphs with 150-200 vertices and 6000-12000 edges", ring_pct=100, max_size=20, floor=8),
            enum_job("conv", "graphs", dict(prop="C09", classes=_classes(["DS", "DL", "DM", "DW"], ["int", "struct"]), dmin=0, dmax=2 if tier == "quick" else 3, orders=2, pads="0:0;1:1"), tier,
                     "every directed graph on <=%d vertices" % (2 if tier == "quick" else 3)),
            enum_job("conv", "graphs", dict(prop="C09", classes=_classes(["US", "UL", "UM", "UW"], ["int", "struct"]), umin=0, umax=3 if tier == "quick" else 4, orders=2, pads="0:0;1:1"), tier,
                     "every undirected graph on <=%d vertices" % (3 if tier == "quick" else 4))]
    return jobs


def jobs_C10(tier, scale):
    cl = _classes(["DS", "US", "DL", "UL"], ["int", "string"])
    q = tier == "quick"
    return [graph_job("C10", "sub", cl, tier, scale, 4000, 100000, "generated graphs, all 2^n subsets for n<=6, generated subsets above", nmax=9, subsets=6, max_size=50),
            graph_job("C10", "sub", cl, tier, scale, 80, 2000, "graphs with 66-100 vertices and vertices of degree above 64; subsets given as index ranges with a stride", big_pct=100, subsets=4,
                      max_size=50),
            enum_job("sub", "graphs", dict(prop="C10", classes=_classes(["DS", "DL"], ["int"]), dmin=0, dmax=3 if q else 3, orders=2 if q else 3), tier, "every directed graph on <=3 vertices x every subset"),
            enum_job("sub", "graphs", dict(prop="C10", classes=_classes(["US", "UL"], ["int"]), umin=0, umax=3 if q else 4, orders=2), tier,
                     "every undirected graph on <=%d vertices x every subset" % (3 if q else 4))]


def jobs_C11(tier, scale):
    q = tier == "quick"
    cl = _classes(["DS", "US", "DL", "UL"], ["int"])
    jobs = [graph_job("C11", "bfs", cl, tier, scale, 4000, 150000, "generated graphs n<=10 (cycles through the source, loops, components, ties); 30 % searched on a copy, a container-constructor rebuild or a moved-to object", nmax=10, max_size=60, via=30),
            graph_job("C11", "bfs", cl, tier, scale, 96, 2400, "a validated search repeated after 2^8-1 (7 of 8 cases) or 2^16-1 other searches that never reach its source", nmin=2, nmax=9, max_size=60,
                      wrap_permille=1000, noshrink=1),
            graph_job("C11", "bfs", cl, tier, scale, 1000, 30000, "generated graphs whose neighbour lists hold repeated entries (forced duplicates): predecessor lists and path sets still without repeats",
                      nmax=8, forced=15, max_size=60),
            graph_job("C11", "bfs", cl, tier, scale, 1200, 30000, "each case in a fresh process: the same edge list searched as three classes (other directedness, other label type) in a generated order",
                      nmax=8, max_size=60, fresh=1),
            dict(engine="pbt", executor="bfs", config="san", gen="family", cfg=dict(prop="C11", classes=cl, small="1"), cases=_n(tier, 320, 8000, scale), shards=8 if q else 16, max_size=100,
                 label="layered / grid / diamond-chain / ladder / clique-chain families with up to 4^6 or 3^8 shortest paths per pair (far more paths than V^2), every source: the complete path sets against the reference enumeration"),
            enum_job("bfs", "graphs", dict(prop="C11", classes="DS:none", dmin=0, dmax=3, orders=2), tier, "every directed graph on <=3 vertices, all sources and destinations"),
            enum_job("bfs", "graphs", dict(prop="C11", classes="US:none", umin=0, umax=4, orders=2), tier, "every undirected graph on <=4 vertices, all sources and destinations")]
    if not q:
        jobs += [enum_job("bfs", "graphs", dict(prop="C11", classes="DS:none", dmin=4, dmax=4, orders=1), tier, "every directed graph on 4 vertices (65536)"),
                 enum_job("bfs", "graphs", dict(prop="C11", classes="US:none", umin=5, umax=5, orders=1), tier, "every undirected graph on 5 vertices (32768)")]
    return jobs


def jobs_C12(tier, scale):
    q = tier == "quick"
    cl = _classes(["DW", "UW"])
    jobs = [graph_job("C12", "dij", cl, tier, scale, 4000, 100000, "generated graphs n<=12, integer weights 0..16 (exact), weights also set through setEdgeWeight; 30 % searched on a copy, a container-constructor rebuild or a moved-to object", nmax=12, xmax=17,
                      extra="wmode int", max_size=60, sets=12, via=30),
            graph_job("C12", "dij", cl, tier, scale, 96, 2400, "a validated search repeated after 2^8-1 (7 of 8 cases) or 2^16-1 other searches that never reach its source", nmin=2, nmax=9, xmax=17,
                      extra="wmode int", max_size=60, wrap_permille=1000, noshrink=1),
            graph_job("C12", "dij", cl, tier, scale, 2000, 60000, "generated graphs, weights k/8 (exact); 30 % searched on a copy, a container-constructor rebuild or a moved-to object", nmax=10, xmax=4096, extra="wmode frac", max_size=60, via=30),
            graph_job("C12", "dij", cl, tier, scale, 1500, 40000, "generated graphs, weights k*2^-60 (exact, all below machine epsilon)", nmax=10, xmax=17, extra="wmode tiny", max_size=60),
            graph_job("C12", "dij", cl, tier, scale, 1000, 30000, "generated graphs, weights k*2^40 (exact)", nmax=10, xmax=17, extra="wmode huge", max_size=60),
            graph_job("C12", "dij", cl, tier, scale, 2000, 60000, "generated graphs, weights k/7 (rounded, tolerance 2n*2^-52*max(1,ref)); weights also set through setEdgeWeight", nmax=10, xmax=600, extra="wmode rounded", max_size=60, sets=12),
            graph_job("C12", "dij", cl, tier, scale, 800, 20000, "each case in a fresh process: the same edge list searched as directed and as undirected weighted graph in a generated order",
                      nmax=8, xmax=17, extra="wmode int", max_size=60, fresh=1),
            enum_job("dij", "w4", dict(prop="C12", classes="DW:none", dmin=0, dmax=2, orders=2, extra="wmode abs012"), tier, "directed n<=2 x weights {absent,0,1,2}, all sources"),
            enum_job("dij", "w4", dict(prop="C12", classes="UW:none", umin=0, umax=3, orders=2, extra="wmode abs012"), tier, "undirected n<=3 x weights {absent,0,1,2}, all sources")]
    if not q:
        jobs += [enum_job("dij", "w4", dict(prop="C12", classes="DW:none", dmin=3, dmax=3, orders=1, extra="wmode abs012"), tier, "directed n=3 x weights {absent,0,1,2} (262144)"),
                 enum_job("dij", "w4", dict(prop="C12", classes="UW:none", umin=4, umax=4, orders=1, extra="wmode abs012"), tier, "undirected n=4 x weights {absent,0,1,2} (1048576)")]
    return jobs


def jobs_C19(tier, scale):
    def fam(executor, classes, quick, thorough, label, **cfg):
        c = dict(prop="C19", classes=classes)
        c.update({k: str(v) for k, v in cfg.items()})
        return dict(engine="pbt", executor=executor, config="san", gen="family", cfg=c, cases=_n(tier, quick, thorough, scale), shards=8 if tier == "quick" else 16, max_size=100, label=label)
    return [fam("bfs", _classes(["DS", "US", "DL", "UL"], ["int"]), 600, 12000, "layered / grid / complete DAG / ladder / diamond-chain families, every source: BFS scans <= V and <= V+E"),
            fam("dij", _classes(["DW", "UW"]), 600, 12000, "the same families with all-zero, all-one and varying weights: Dijkstra scans <= V+E+1"),
            fam("dij", _classes(["DW", "UW"]), 300, 6000, "hub improved m times with fan-out L, non-dyadic weights (stale queue entries must relax nothing)", families="fanin"),
            graph_job("C19", "dij", _classes(["DW", "UW"]), tier, scale, 800, 20000, "random weighted graphs, weights k/7 (not exactly representable)", nmax=30, xmax=40, extra="wmode rounded", max_size=100),
            graph_job("C19", "bfs", _classes(["DS", "US"]), tier, scale, 1500, 40000, "random graphs n<=40; pair searches before every counted search", nmax=40, max_size=100),
            graph_job("C19", "bfs", _classes(["DS", "US"]), tier, scale, 64, 1600, "the counted searches after 2^8-1 (7 of 8 cases) or 2^16-1 other searches", nmin=2, nmax=12, max_size=60,
                      wrap_permille=1000, noshrink=1),
            graph_job("C19", "dij", _classes(["DW", "UW"]), tier, scale, 1500, 40000, "random weighted graphs n<=30, weights 0..4 (ties and zero-weight cycles), also set through setEdgeWeight", nmax=30, xmax=5, extra="wmode int", max_size=100, sets=10)] + (
        [] if tier == "quick" else [fuzz_job("dij", "wgraph", "C19", tier, scale, 0, 6000000, "guided search: libFuzzer climbs scans/(V+E+1) through __libfuzzer_extra_counters", max_len=300)])


def jobs_C13(tier, scale):
    cl = _classes(["DS", "US", "DL", "UL"], ["int", "double", "string", "struct"])
    tf = dict(engine="pbt", executor="text", config="san", gen="textfile", cfg=dict(classes="DS:none;US:none;DL:string;UL:string;DL:int;UL:int", modes="indexfile;namefile"),
              cases=_n(tier, 6000, 150000, scale), shards=8 if tier == "quick" else 16, max_size=80, label="files generated from the documented grammar vs an independent reference parser")
    jobs = [graph_job("C13", "text", cl, tier, scale, 6000, 150000, "write/load round trips (labels none/int/double/string/struct, indices up to 14; 8 % forced duplicate entries; in a quarter of the cases the output path already holds a file)", nmax=14, extra="mode roundtrip", max_size=60, forced=8, prefill=25), tf,
            graph_job("C13", "text", _classes(["DS", "US", "DL", "UL"], ["int", "string"]), tier, scale, 48, 960, "round trips of files with 6000-12000 lines (150-200 vertices, each joined to the next 40-60)",
                      ring_pct=100, extra="mode roundtrip", max_size=20)]
    # byte-level differential: whenever the reference parser classifies the input as well-formed, loader and reference must agree
    jobs.append(fuzz_job("text", "rawtext", "C13", tier, scale, 160000, 8000000, "libFuzzer byte-level differential against the reference parser (seed corpus + dictionary / empty corpus)", shards=4 if tier == "quick" else 16))
    return jobs


BIN_LABELS = ["i8", "u8", "i16", "u16", "i32", "u32", "i64", "u64", "f32", "f64"]
BIN_CLASSES = "DS:none;US:none;" + ";".join("DL:%s;UL:%s" % (l, l) for l in BIN_LABELS)


def jobs_C14(tier, scale):
    return [graph_job("C14", "bin", BIN_CLASSES, tier, scale, 8000, 200000, "round trip + byte layout + hand-made files (11 label types x directed/undirected); in a quarter of the cases the output path already holds a file", nmax=12, extra="mode roundtrip", max_size=60, prefill=25),
            graph_job("C14", "bin", BIN_CLASSES, tier, scale, 66, 660, "files of 8000-14000 records (140-170 vertices, each joined to the next 60-80)", nmin=140, nmax=170,
                      extra="mode roundtrip;dense_auto 1", max_size=10),
            graph_job("C14", "bin", BIN_CLASSES, tier, scale, 220, 2200, "unopenable path: every loader and writer throws std::runtime_error", nmax=3, extra="mode badpath", max_size=10),
            graph_job("C14", "bin", BIN_CLASSES, tier, scale, 1500, 40000, "vertex indices with 0xFF / 0x00 bytes in every position (255, 256, 65535, 65536, ... 70000)", nmin=22, nmax=22, extra="mode bigindex", max_size=30)]


def jobs_C15_cuts(tier, scale):
    return [graph_job("C15", "bin", BIN_CLASSES, tier, scale, 3000, 80000, "every cut offset of generated valid binary files (<= ~14 records)", nmax=5, extra="mode cuts", max_size=40)]


def jobs_C15(tier, scale):
    return jobs_C15_cuts(tier, scale) + jobs_C15_fuzz(tier, scale)


def fuzz_job(executor, target, prop, tier, scale, quick, thorough, label, max_len=256, shards=None):
    nsh = shards or (8 if tier == "quick" else 16)
    return dict(engine="fuzz", frontend="fuzz", executor=executor, config="fuzz", replay_config="san", cases=_n(tier, quick, thorough, scale), shards=nsh,
                extra=dict(target=target, prop=prop, max_len=max_len), label=label, timeout=3600 if tier == "quick" else 14400)


def jobs_C15_fuzz(tier, scale):
    return [fuzz_job("bin", "rawbin", "C15", tier, scale, 400000, 16000000, "libFuzzer: arbitrary bytes as binary edge list, oracle = prefix of complete records (half of the shards from the seed corpus, half from empty)"),
            fuzz_job("text", "rawtext", "C15", tier, scale, 400000, 16000000, "libFuzzer: arbitrary bytes as text for index/name loader x none/string/int labels; returns or throws std::exception; differential when well-formed")]


# ------------------------------------------------------------------ C17
def c17_streams(tier, scale):
    """the seeded case streams of the other properties that are re-run under several builds"""
    q = tier == "quick"
    n = lambda a, b: _n(tier, a, b, scale)
    st = []
    def hist(name, prop, classes, mix, cases, **cfg):
        c = dict(prop=prop, classes=classes, mix=_mix(mix))
        c.update({k: str(v) for k, v in cfg.items()})
        st.append(dict(name=name, executor="hist", gen="hist", cfg=c, cases=cases, max_size=40))
    hist("C01", "C01", _classes(["DS", "DL"], ["int", "string", "struct"]), dict(add=45, recip=12, rm=20, rmloops=5, rmvtx=6, clear=4, resize=8, xcopy=5), n(1200, 20000))
    hist("C02", "C02", _classes(["US", "UL"], ["int", "string", "struct"]), dict(add=50, rm=22, rmloops=6, rmvtx=9, clear=4, resize=8, xcopy=5), n(1200, 20000))
    hist("C03", "C03", _classes(["DL", "UL"], L6), dict(add=38, setl=22, rm=12, rmloops=6, rmvtx=8, clear=5, resize=4, recip=5, xcopy=5), n(1200, 20000))
    hist("C04", "C04", _classes(["DM", "UM"]), dict(add1=15, add=25, recip1=3, recip=3, rm=10, rmk=12, setm=15, rmloops=5, rmvtx=6, clear=3, resize=4, xcopy=5), n(1200, 20000))
    hist("C05", "C05", _classes(["DW", "UW"]), dict(add=35, setw=25, rm=12, rmloops=6, rmvtx=8, clear=4, resize=5, xcopy=5), n(1200, 20000), mode="exact")
    hist("C16", "C16", _classes(["DS", "US", "DL", "UL", "DW", "UW"], ["int", "string"]), dict(add=55, rm=15, dedup=15, resize=5), n(1200, 20000), force=50, pairvalues=1)
    hist("C16m", "C16", _classes(["DM", "UM"]), dict(add=85, dedup=8, resize=5), n(600, 10000), force=100, pairvalues=1, final="dedup")
    # any valid call sequence: forced duplicates followed by every mutator, where no property fixes the outcome; nothing is compared with a model,
    # the sanitizers and the agreement of the observations across builds are the oracle
    hist("anyseq", "C17", _classes(ALL8, ["int", "string"]),
         dict(add=40, add1=6, recip=4, rm=12, rmk=6, setl=8, setm=8, setw=8, rmloops=4, rmvtx=6, clear=2, resize=4, dedup=4, churn=1, xcopy=4), n(2400, 40000), force=35, safety_only=1)
    # the same on the multigraphs alone, where a removal on a duplicated pair leaves a list entry without multiplicity record
    hist("anyseqM", "C17", _classes(["DM", "UM"]), dict(add=30, add1=10, rm=14, rmk=14, setm=22, rmloops=3, rmvtx=4, dedup=4, resize=3, xcopy=2), n(1600, 30000), force=40, safety_only=1)
    st.append(dict(name="C06", executor="eq", gen="eq", cfg=jobs_C06(tier, scale)[0]["cfg"], cases=n(1200, 20000), max_size=35))
    st.append(dict(name="C11", executor="bfs", gen="graph", cfg=dict(prop="C11", classes=_classes(["DS", "US", "DL", "UL"], ["int"]), nmax="9"), cases=n(800, 15000), max_size=50))
    st.append(dict(name="C12", executor="dij", gen="graph", cfg=dict(prop="C12", classes=_classes(["DW", "UW"]), nmax="12", xmax="17", extra="wmode int"), cases=n(800, 15000), max_size=50))
    st.append(dict(name="C19bfs", executor="bfs", gen="family", cfg=dict(prop="C19", classes=_classes(["DS", "US"])), cases=n(150, 3000), max_size=100))
    st.append(dict(name="C08", executor="iter", gen="graph", cfg=dict(prop="C08", classes=_classes(ALL8, ["int", "string"]), nmax="8", pads="1"), cases=n(800, 15000), max_size=50))
    # file IO, subgraphs, conversions and container constructors are public entry points too: the round-trip / extraction / conversion
    # streams of C13, C14, C10 and C09 under the sanitizers + libstdc++ debug mode and under an unoptimised build (two builds: their
    # executors are the slowest to compile)
    io = ["san", "o0"]
    st.append(dict(name="C13", executor="text", gen="graph", cfg=dict(jobs_C13(tier, scale)[0]["cfg"]), cases=n(800, 12000), max_size=50, configs=io))
    st.append(dict(name="C14", executor="bin", gen="graph", cfg=dict(jobs_C14(tier, scale)[0]["cfg"]), cases=n(600, 10000), max_size=50, configs=io))
    st.append(dict(name="C10", executor="sub", gen="graph", cfg=dict(jobs_C10(tier, scale)[0]["cfg"]), cases=n(500, 8000), max_size=50, configs=io))
    st.append(dict(name="C09", executor="conv", gen="graph", cfg=dict(jobs_C09(tier, scale)[1]["cfg"]), cases=n(600, 10000), max_size=50, configs=io))
    return st


def jobs_C17(tier, scale):
    configs = ["san", "plain", "o0"] if tier == "quick" else ["san", "plain", "o0", "clangasan", "gccO2"]
    jobs = []
    for si, stream in enumerate(c17_streams(tier, scale)):
        for config in stream.get("configs", configs):
            jobs.append(dict(engine="pbt", executor=stream["executor"], config=config, gen=stream["gen"], cfg=dict(stream["cfg"]), cases=stream["cases"], shards=1,
                             max_size=stream["max_size"], seed_group=100 + si, stream=stream["name"], extra=dict(dump=1),
                             label="stream %s under build %s" % (stream["name"], config)))
    if tier != "quick":
        # uninitialised reads: valgrind memcheck on a sample of every stream (o0 build); MSan is unusable here
        for si, stream in enumerate(c17_streams(tier, scale)):
            jobs.append(dict(engine="pbt", executor=stream["executor"], config="o0", gen=stream["gen"], cfg=dict(stream["cfg"]), cases=300, shards=1, max_size=30,
                             seed_group=300 + si, stream=stream["name"], extra=dict(valgrind=1), label="stream %s under valgrind memcheck (o0 build)" % stream["name"], timeout=7200))
        jobs.append(fuzz_job("hist", "hist", "C17", tier, scale, 0, 4000000, "libFuzzer structure-aware histories (all 18 class/label configurations, forced-duplicate mode included)", max_len=400))
    return jobs


def c17_post_merge(ctx):
    """oracle 2: for every stream, the per-case digests of everything observed are identical across build configurations"""
    import json as _json
    jobs, results = ctx["jobs"], ctx["results"]
    by_stream = {}
    for r in results:
        j = jobs[r["job"]]
        if not r.get("dump") or j.get("extra", {}).get("valgrind"):
            continue
        by_stream.setdefault(j["stream"], []).append((j["config"], r))
    violations, broken = [], []
    compared = 0
    pairs = 0
    for stream, runs in sorted(by_stream.items()):
        base_cfg, base = runs[0]
        try:
            base_lines = [_json.loads(l) for l in open(base["dump"])]
        except Exception as e:
            broken.append("stream %s: cannot read the digest dump of build %s (%s)" % (stream, base_cfg, e))
            continue
        for cfg, r in runs[1:]:
            try:
                lines = [_json.loads(l) for l in open(r["dump"])]
            except Exception as e:
                broken.append("stream %s: cannot read the digest dump of build %s (%s)" % (stream, cfg, e))
                continue
            pairs += 1
            n = min(len(base_lines), len(lines))
            for k in range(n):
                a, b = base_lines[k], lines[k]
                if a["text"] != b["text"]:
                    broken.append("stream %s: builds %s and %s were fed different cases at index %d (front-end not deterministic)" % (stream, base_cfg, cfg, k))
                    break
                compared += 1
                if a["digest"] != b["digest"] or a["verdict"] != b["verdict"]:
                    ex = jobs[r["job"]]["executor"]
                    violations.append(dict(case="# differential: %s %s %s\n" % (ex, base_cfg, cfg) + a["text"],
                                           message="the same case gives different observations under build %s (digest %s, verdict %s) and build %s (digest %s, verdict %s): "
                                                   "results depend on compiler / optimisation level / checking mode" % (base_cfg, a["digest"], a["verdict"], cfg, b["digest"], b["verdict"]),
                                           key="differential|%s|%s-vs-%s" % (stream, base_cfg, cfg), executor=ex, config=base_cfg, crashed=False))
                    break
            else:
                if len(base_lines) != len(lines) and not (base["stats"] or {}).get("failed") and not (r["stats"] or {}).get("failed"):
                    broken.append("stream %s: builds %s and %s evaluated %d vs %d cases" % (stream, base_cfg, cfg, len(base_lines), len(lines)))
    return dict(violations=violations, broken=broken, coverage=dict(differential_cases_compared=compared, differential_build_pairs=pairs))


def c17_replay(pid, path, text):
    """differential replays run the case under both builds and compare the digests"""
    import re
    import shutil
    from . import build, runner
    m = re.search(r"^# differential: (\S+) (\S+) (\S+)", text, re.M)
    if not m:
        return None
    ex, ca, cb = m.groups()
    try:
        bins = build.build_many([("replay", ex, ca), ("replay", ex, cb)])
    except build.BuildError as e:
        runner.log("BUILD FAILED\n" + e.log)
        return 2
    scratch = runner.make_scratch()
    try:
        outs = {}
        for cfg in (ca, cb):
            rc, out = runner.replay_case(bins[("replay", ex, cfg)], text, scratch, cfg)
            dg = re.search(r"^digest: (\S+)", out, re.M)
            outs[cfg] = (rc, dg.group(1) if dg else None)
            print("build %s: rc=%s digest=%s" % (cfg, rc, outs[cfg][1]))
    finally:
        shutil.rmtree(scratch, ignore_errors=True)
    if outs[ca] != outs[cb] or runner.failing(outs[ca][0]):
        print("VIOLATION property=%s replay=%s" % (pid, path))
        return 1
    print("replay passes: both builds agree")
    return 0


def jobs_C18(tier, scale):
    return [graph_job("C18", "conc", _classes(ALL8, ["int", "string"]), tier, scale, 1600, 32000, "concurrent readers on a shared graph (T in {2,4,8}, 1-3 rounds, shuffled entry-point order)",
                      config="tsan", nmin=3, nmax=7, conc=1, max_size=60),
            graph_job("C18", "conc", _classes(ALL8, ["int", "string"]), tier, scale, 48, 960, "the same on shared graphs with 66-100 vertices and vertices of degree above 64 (subgraph subsets of more than 48 vertices, long neighbour lists)",
                      config="tsan", big_pct=100, conc=1, max_size=30, floor=16)]


def jobs_C20(tier, scale):
    from . import c20
    return [dict(engine="custom", fn=c20.c20_job, label="matrix {documented entry point} x {label kind} x {standard} x {compiler}; headers alone/twice; two-TU programs linked and run", targets=[])]


def c20_replay_hook(pid, path, text):
    from . import c20
    return c20.c20_replay(pid, path, text)


RULE_HIST = ("rapidcheck-generated call histories (0-%d ops, sizes 0-12) executed against the real class and an independent std::map model; "
             "all public observers compared after every step. ")

PROPS = {
    "C01": dict(jobs=jobs_C01, min_nontrivial=dict(quick=500, thorough=5000),
                rule=RULE_HIST % 80 + "Non-trivial: >=3 distinct mutator kinds, >=1 removal that removed something and >=1 no-op re-add or absent removal; distinct by hash of the case text.",
                assumptions=["reference model written from the documentation", "neighbour order is not asserted"]),
    "C02": dict(jobs=jobs_C02, min_nontrivial=dict(quick=300, thorough=3000),
                rule=RULE_HIST % 80 + "Non-trivial: >=3 mutator kinds and (a self-loop on a vertex later passed to removeVertexFromEdgeList, or a removeEdge naming the pair in the orientation opposite to its creation).",
                assumptions=["reference model written from the documentation"]),
    "C03": dict(jobs=jobs_C03, min_nontrivial=dict(quick=500, thorough=5000),
                rule=RULE_HIST % 80 + "Non-trivial: the labels of all pairs are read after an edge with a label was removed by clearEdges, removeVertexFromEdgeList or removeSelfLoops (not only removeEdge).",
                assumptions=["setEdgeLabel(force=true) on an absent edge is never generated (documented orphan)"]),
    "C04": dict(jobs=jobs_C04, min_nontrivial=dict(quick=300, thorough=3000),
                rule=RULE_HIST % 80 + "Non-trivial: >=4 op kinds and (setEdgeMultiplicity(.,.,0) on a pair of multiplicity >=2 or a bulk removal touching such a pair).",
                assumptions=["multiplicities stay below 2^20 (no unsigned wrap-around)"]),
    "C05": dict(jobs=jobs_C05, min_nontrivial=dict(quick=300, thorough=3000),
                rule=RULE_HIST % 80 + "Non-trivial: >=4 op kinds and (setEdgeWeight on a present undirected pair named in descending order, or the total read after an effective bulk removal). "
                "Exact mode: weights k/8, |k|<=2^16, total must be equal; rounded mode: tolerance (m+1)*2^-50*(1+sum|w|).",
                assumptions=["finite weights only"]),
    "C06": dict(jobs=jobs_C06, min_nontrivial=dict(quick=500, thorough=5000),
                rule="rapidcheck-generated pairs of histories on each of the eight classes (labels int/string/struct): (a) the same value rebuilt in a generated order/orientation "
                "with detours through removed ghost edges and corrected labels, (b) the same plus one further mutation, (c) independent small histories, (d) copies (construction / assignment) "
                "mutated afterwards. Oracle: ==, != in both directions and reflexivity against value equality of the two models; a copy shows the same observations and never moves when "
                "the other side is mutated. Non-trivial: equality decided after a removal in either history, a rebuilt history containing removals, or models differing in exactly one place.",
                assumptions=["duplicate-free histories (force off)", "weights exactly representable"]),
    "C07": dict(jobs=jobs_C07, min_nontrivial=dict(quick=500, thorough=5000),
                rule="rapidcheck-generated histories on the eight classes in which rejected calls are mixed with valid ones: random cells of the matrix {public entry point taking a vertex index, "
                "getSubgraph / getSubgraphWithRemap with a bad member, the six breadth-first searches, Dijkstra} x {argument position(s)} x {n, n+1, n+7, UINT_MAX} x {every flag combination incl. force=true}, "
                "resize to fewer vertices, unforced setEdgeLabel on an absent edge; plus the complete matrix at the final state of each history of the second job. Oracle: exact exception type "
                "(std::out_of_range resp. std::invalid_argument), exact snapshot of all observers identical before/after, no sanitizer or libstdc++ debug-mode report. "
                "Non-trivial: a rejected call in a state with >=1 edge followed by >=1 valid mutator.",
                assumptions=["find...FromPredecessors helpers are not part of the matrix (they take a caller-supplied table, not named by the property)"]),
    "C08": dict(jobs=jobs_C08, min_nontrivial=dict(quick=1000, thorough=10000), exhaustive=True,
                exhaustive_scope=dict(quick="all loop-allowing directed graphs on n<=3 and undirected on n<=4, every class", thorough="plus directed n=4 (65536) and undirected n=5 (32768)"),
                rule="bounded-exhaustive enumeration of every edge set (bit mask over all pairs, self-loops included) for the stated sizes, each built in several insertion orders and "
                "orientations and padded with isolated vertices in front (index shift) and behind (resize); all eight classes. Oracle: for(v:g) yields 0..n-1 by pre- and post-increment; "
                "edges() traversed with ++it, it++ (result must denote the old position), twice and by range-for gives four identical sequences equal as a multiset to the model; "
                "begin()==end() iff no edge; step cap; all observers, getReversedGraph/getDirectedGraph and the text/binary writers defined and right. "
                "Non-trivial: n=0, no edge, first or last vertex isolated, or a neighbour list not in ascending order; distinct by case text.",
                assumptions=["insertion orders are a fixed family of permutations, not all n! orders"]),
    "C09": dict(jobs=jobs_C09, min_nontrivial=dict(quick=500, thorough=5000), build_error_is_violation=True,
                rule="rapidcheck-generated graphs of all eight classes (labels int/string/struct; asymmetric labels on reciprocal pairs, loops, isolated and zero vertices, repeated pairs) "
                "plus every topology of the small exhaustive scopes. Oracle over all pairs: getReversedGraph = flipped edges with labels, twice = identity; getDirectedGraph = both orientations "
                "(one for a loop) with the pair's label, nothing else; undirected-from-directed joins exactly the pairs connected either way with one of their labels; u->d->u identity; "
                "constructors from vector/list/deque/forward_list/set/multiset: size 1+max index (0 if empty), result == resize + one add per element, same observations; "
                "copy construction/assignment equal and independent both ways. Non-trivial: a non-loop edge with a non-default label crosses a conversion, or a constructor input with a repeated pair.",
                assumptions=["set/multiset containers are skipped for the struct label (no operator<)"]),
    "C10": dict(jobs=jobs_C10, min_nontrivial=dict(quick=300, thorough=3000),
                rule="generated graphs (directed/undirected, labels none/int/string, loops) and every graph of the small exhaustive scopes; for n<=6 all 2^n vertex subsets, above that generated subsets plus the "
                "empty and the full set. Oracle: getSubgraph has size n and exactly the induced edges with their labels, each listed once, edge count = induced count; getSubgraphWithRemap has size |S|, "
                "its map is a bijection of S onto 0..|S|-1 (any bijection accepted) under which edges and labels are exactly the induced ones; the source graph is unchanged. "
                "Non-trivial: a proper non-empty S with >=1 edge inside and >=1 edge crossing its boundary.", assumptions=[]),
    "C11": dict(jobs=jobs_C11, min_nontrivial=dict(quick=300, thorough=3000), exhaustive_scope=dict(quick="directed n<=3, undirected n<=4", thorough="directed n<=4, undirected n<=5"),
                rule="every graph of the exhaustive scopes and generated graphs n<=10, every source and destination. Reference: all-pairs hop distances by repeated relaxation on the model, the set of all "
                "shortest paths by recursion over in-neighbours one hop closer. Oracle: both predecessor searches return the reference distances (sentinel when unreachable); the single predecessor is "
                "an in-neighbour one hop closer; the all-predecessor list is exactly that set without repeats; findGeodesics / ...FromVertex return [s], empty, or a walk along edges with dist hops; "
                "findAllGeodesics / ...FromVertex equal the reference set (no duplicate, none missing). Which shortest path is chosen is not asserted. "
                "Non-trivial: >=2 shortest paths to some vertex, a cycle through the source, or an unreachable vertex.", assumptions=[]),
    "C12": dict(jobs=jobs_C12, min_nontrivial=dict(quick=300, thorough=3000), exhaustive_scope=dict(quick="directed n<=2, undirected n<=3 x {absent,0,1,2}", thorough="directed n<=3, undirected n<=4 x {absent,0,1,2}"),
                rule="exhaustive small topologies x weight alphabet {absent,0,1,2} and generated graphs n<=12 (integer, k/8 and k/7 weights), every source. Reference: Bellman-Ford on the model. "
                "Oracle: distances equal the reference (exactly in the exact modes, within 2n*2^-52*max(1,ref) otherwise), dist[s]=0, pred[s]=s, reached v: edge (pred,v) exists and "
                "dist[v]=dist[pred]+w, unreachable: +inf and sentinel; termination asserted by a scan budget of 100(V+E+1) on an instrumented graph type. "
                "Non-trivial: a zero-weight cycle, two routes of equal weight, or an unreachable vertex.", assumptions=["weights >= 0 and finite"]),
    "C19": dict(jobs=jobs_C19, min_nontrivial=dict(quick=200, thorough=2000),
                rule="graph families with exponentially many shortest paths (layered width 2-4 x depth <=40, grids, diamond chains), complete DAGs, bidirected ladders with zero-weight cycles, and random "
                "graphs; every source. The searches run on an instrumented graph type that counts getOutNeighbours calls and throws beyond the stated bound: <=V (findVertexPredecessors), "
                "<=V+E (findAllVertexPredecessors), <=V+E+1 (findGeodesicsDijkstra, weights>=0), E = total neighbour-list length. "
                "Non-trivial: some vertex has more shortest paths than V+E (BFS) or the graph has a tie or zero-weight cycle (Dijkstra).",
                assumptions=["one getOutNeighbours call per neighbourhood scan (the observation the property names)"]),
    "C13": dict(jobs=jobs_C13, min_nontrivial=dict(quick=200, thorough=2000),
                rule="(a) generated graphs written with writeTextEdgeList and read back with loadTextEdgeList (codecs: to_string/stoi, %.17g/strtod, identity, two-field struct): size = 1+largest used "
                "index, equal to the original after resize and equal to the model; string labels without line break and without leading blank (not expressible: the blank run is the separator). "
                "(b) files generated from the grammar line := '#' any* | ws* tok ws+ tok (ws+ rest | ws*), ws=[ \\t]+, last line with or without newline, distinct pairs, for the index loader "
                "and the name loader (names may contain/start with '#' when the line does not start with it); oracle = independent reference parser: edges, labels = rest of line, numbering in order of "
                "first appearance, names[index(x)]=x. Non-trivial: round trip of a labelled graph with a self-loop and an index > 9; file with a comment line, a tab or leading blanks, a label containing "
                "blanks and >=2 edges.", assumptions=["pairs are distinct within a file (the loader's treatment of repeated lines is not specified by the property)"]),
    "C14": dict(jobs=jobs_C14, min_nontrivial=dict(quick=200, thorough=2000),
                rule="generated graphs x label types {none, (u)int8/16/32/64, float, double} x directed/undirected. Oracle: (1) write/load round trip: size = 1+largest used index, equal to the original "
                "after resize, all pairs and labels equal to the model; (2) the file's bytes equal, record for record in edges() order, LE32(src) LE32(dst) LE(label) computed with shifts, hence "
                "length = edges x (8+sizeof label); (3) a hand-made file with the model's records in a generated order/orientation loads to the model's graph, twice identically; (4) an unopenable "
                "path makes every loader and writer throw std::runtime_error; (5) swapBytes reverses the object representation and is an involution; (6) sparse graphs whose vertex indices have 0xFF / 0x00 "
                "bytes in every position (255, 256, 511, 65535, 65536, ... 70000) round-trip with the same layout. "
                "Non-trivial: multi-byte label, >=2 edges and a self-loop.",
                assumptions=["'any host' cannot be executed on one little-endian machine: what is checked is that the bytes are the little-endian ones"]),
    "C15": dict(jobs=lambda tier, scale: jobs_C15(tier, scale), min_nontrivial=dict(quick=200, thorough=2000), level="fault_enumeration",
                rule="(crash points) generated valid binary files (11 label types, <=14 records) cut at EVERY byte offset 0..len: the loader either throws an exception derived from std::exception "
                "or returns exactly the floor(cut/record) complete records (same pairs via neighbour lists, same labels, same count, size 1+largest index among them). "
                "(arbitrary input) libFuzzer targets with the oracle inside: arbitrary bytes as a binary file (same prefix-of-complete-records oracle computed from the raw bytes; indices >= 2^16 skipped "
                "and counted) and arbitrary bytes as text for the index and the name loader with throwing and non-throwing label parsers (outcome must be 'returns' or 'throws std::exception'; "
                "index tokens whose value needs more than 2^16 vertices are outside the domain, -1 is inside). ASan+UBSan on. Non-trivial: a cut strictly inside a record; a text input with "
                ">=1 line the reference parser rejects and >=1 it accepts.",
                assumptions=["vertex indices kept small enough to allocate (documented domain restriction of the property)"]),
    "C17": dict(jobs=jobs_C17, min_nontrivial=dict(quick=1000, thorough=10000), post_merge=c17_post_merge, replay_hook=c17_replay,
                rule="the seeded case streams of C01-C06, C08, C11, C12 and C16 (same rapidcheck seeds, hence identical cases) executed under several builds of the same executors: "
                "g++ -O1 ASan+UBSan+_GLIBCXX_DEBUG(_PEDANTIC), clang++ -O2, g++ -O0 (thorough adds clang++ -O0 ASan and g++ -O2 _GLIBCXX_ASSERTIONS). Oracle 1: no sanitizer report, no libstdc++ "
                "debug-mode abort, no crash in any build. Oracle 2: the per-case digest of every exact snapshot / search result is identical in all builds. Thorough adds a structure-aware libFuzzer "
                "target over histories and 300 cases per stream under valgrind memcheck (the only detector of uninitialised reads available: MSan has no instrumented libstdc++ here, so that clause "
                "is sampled much more thinly). Non-trivial by the rule of the stream's own property; distinct by case text.",
                assumptions=["libstdc++ is not instrumented: accesses inside it are judged only through its debug-mode checks"]),
    "C18": dict(jobs=jobs_C18, min_nontrivial=dict(quick=150, thorough=3000),
                rule="generated graphs of each of the eight classes; T in {2,4,8} threads start behind one barrier and are otherwise unsynchronised; each runs EVERY const entry point "
                "(all observers incl. the throwing getters, vertex and edge iteration, ==/!=, copy construction and assignment, operator<<, reversal, both conversions, both subgraph extractions, "
                "the six breadth-first searches, the path-reconstruction helpers, Dijkstra, asLabeledGraph, text and binary writers to per-thread files) in a generated order for 1-3 rounds. "
                "Oracles: ThreadSanitizer (happens-before, so the verdict does not depend on the interleaving that happened to occur) reports nothing; every per-call digest equals the "
                "single-threaded baseline; the shared graph is unchanged. Non-trivial: T>=4 and >=3 edges.",
                assumptions=["accesses inside the uninstrumented libstdc++ are invisible to TSan", "schedules are not enumerated"]),
    "C20": dict(jobs=jobs_C20, min_nontrivial=dict(quick=500, thorough=1000), replay_hook=c20_replay_hook, exhaustive=True,
                exhaustive_scope=dict(quick="every catalogue snippet x 8 label kinds x {C++14, C++17} x {g++ 12, clang++ 14}", thorough="... x {C++14, C++17, C++20}, plus Hypothesis-generated programs"),
                rule="complete enumeration of the matrix {documented entry point snippet (progmatrix/catalogue.py, written from the Doxygen comments, README and examples)} x {label kind: none, int, "
                "unsigned, double, char, std::string, struct with ==, struct with only a default constructor} x {language standard} x {g++, clang++}, restricted by the documented requirements "
                "(label-valued hasEdge and == need operator==, the std::to_string default needs an arithmetic label, binary IO a trivially copyable non-string label). One -fsyntax-only TU per "
                "(label kind, standard, compiler), bisected cell by cell on failure; every header compiled on its own and included twice; per label kind a two-TU program that includes every "
                "header in two different orders (some twice), is linked and run. Oracle: the compilers and the linker accept it, the program exits 0. "
                "Non-trivial: a cell whose label kind the repository's tests do not instantiate (anything but none/int), a header included twice, a multi-TU program. The matrix is enumerated completely.",
                assumptions=["two compilers and the standards they implement; other toolchains are out of reach in this sandbox"]),
    "C16": dict(jobs=jobs_C16, min_nontrivial=dict(quick=300, thorough=3000),
                rule=RULE_HIST % 80 + "Non-trivial: a forced duplicate exists and is later removed by removeDuplicateEdges or removeEdge.",
                assumptions=["all copies of a pair carry the same label/weight/multiplicity (by construction)", "multigraph: weaker reading (deduplicated graph holds each pair once with the multiplicity its copies carried)"]),
}

"""Property table: what each check runs per tier."""

L6 = ["int", "unsigned", "double", "char", "string", "struct"]


def _classes(kinds, labels=("int", "string", "struct")):
    out = []
    for k in kinds:
        if k in ("DL", "UL"):
            out += ["%s:%s" % (k, l) for l in labels]
        else:
            out.append("%s:none" % k)
    return ";".join(out)


def _mix(d):
    return ";".join("%s:%d" % kv for kv in d.items())


def _n(tier, quick, thorough, scale):
    return max(50, int((quick if tier == "quick" else thorough) * scale))


def hist_job(prop, classes, mix, tier, scale, quick, thorough, label, shards=None, max_size=None, **cfg):
    c = dict(prop=prop, classes=classes, mix=_mix(mix))
    c.update({k: str(v) for k, v in cfg.items()})
    return dict(engine="pbt", executor="hist", config="san", gen="hist", cfg=c, cases=_n(tier, quick, thorough, scale),
                shards=shards or (8 if tier == "quick" else 16), max_size=max_size or (50 if tier == "quick" else 80), label=label)


# ------------------------------------------------------------------ C01
def jobs_C01(tier, scale):
    mix = dict(add=45, recip=12, rm=20, rmloops=5, rmvtx=6, clear=4, resize=8)
    return [hist_job("C01", _classes(["DS", "DL"], ["int", "double", "string", "struct"]), mix, tier, scale, 16000, 400000, "directed histories vs set model")]


def jobs_C02(tier, scale):
    mix = dict(add=50, rm=22, rmloops=6, rmvtx=9, clear=4, resize=8)
    return [hist_job("C02", _classes(["US", "UL"], ["int", "double", "string", "struct"]), mix, tier, scale, 16000, 400000, "undirected histories vs set model")]


def jobs_C03(tier, scale):
    mix = dict(add=38, setl=22, rm=12, rmloops=6, rmvtx=8, clear=5, resize=4, recip=5)
    return [hist_job("C03", _classes(["DL", "UL"], L6), mix, tier, scale, 16000, 400000, "label lifetime histories")]


def jobs_C04(tier, scale):
    mix = dict(add1=15, add=25, recip1=3, recip=3, rm=10, rmk=12, setm=15, rmloops=5, rmvtx=6, clear=3, resize=4)
    return [hist_job("C04", _classes(["DM", "UM"]), mix, tier, scale, 16000, 400000, "multigraph histories")]


def jobs_C05(tier, scale):
    mix = dict(add=35, setw=25, rm=12, rmloops=6, rmvtx=8, clear=4, resize=5)
    return [hist_job("C05", _classes(["DW", "UW"]), mix, tier, scale, 8000, 200000, "weighted histories, exact weights", mode="exact"),
            hist_job("C05", _classes(["DW", "UW"]), mix, tier, scale, 8000, 200000, "weighted histories, rounded weights", mode="rounded")]


def jobs_C16(tier, scale):
    mixL = dict(add=55, rm=15, dedup=15, resize=5)
    mixMW = dict(add=85, dedup=8, resize=5)
    return [hist_job("C16", _classes(["DS", "US", "DL", "UL"], ["int", "string"]), mixL, tier, scale, 10000, 250000, "forced duplicates, simple and labelled", force=50, pairvalues=1),
            hist_job("C16", _classes(["DW", "UW"]), mixMW, tier, scale, 4000, 100000, "forced duplicates, weighted", force=60, pairvalues=1, final="dedup"),
            hist_job("C16", _classes(["DM", "UM"]), mixMW, tier, scale, 4000, 100000, "forced duplicates, multigraphs", force=100, pairvalues=1, final="dedup")]


def jobs_C06(tier, scale):
    mix = dict(add=40, add1=8, recip=4, rm=12, rmk=6, setl=10, setm=10, setw=10, rmloops=5, rmvtx=7, clear=4, resize=6)
    c = dict(classes=_classes(["DS", "US", "DM", "UM", "DW", "UW", "DL", "UL"]), mix=_mix(mix))
    return [dict(engine="pbt", executor="eq", config="san", gen="eq", cfg=c, cases=_n(tier, 16000, 400000, scale), shards=8 if tier == "quick" else 16,
                 max_size=40 if tier == "quick" else 70, label="pairs of histories: rebuilt / one difference / independent / copies")]


def jobs_C07(tier, scale):
    mix = dict(add=30, add1=5, recip=3, rm=8, rmk=3, setl=6, setm=5, setw=5, rmloops=2, rmvtx=4, clear=2, resize=5, bad=30, shrink=4)
    c = dict(prop="C07", classes=_classes(["DS", "US", "DM", "UM", "DW", "UW", "DL", "UL"], ["int", "string"]), mix=_mix(mix), zero_pct="8")
    c2 = dict(c)
    c2["final"] = "badall"
    q = 8 if tier == "quick" else 16
    return [dict(engine="pbt", executor="bad", config="san", gen="hist", cfg=c, cases=_n(tier, 12000, 300000, scale), shards=q, max_size=40 if tier == "quick" else 70,
                 label="rejected calls interleaved with valid ones (random cells of the matrix)"),
            dict(engine="pbt", executor="bad", config="san", gen="hist", cfg=c2, cases=_n(tier, 1600, 40000, scale), shards=q, max_size=25,
                 label="complete matrix {entry point x argument position x bad value x flags} at the final state of each history")]


ALL8 = ["DS", "US", "DL", "UL", "DM", "UM", "DW", "UW"]


def enum_job(executor, name, cfg, tier, label, shards=None, config="san"):
    return dict(engine="enum", executor=executor, config=config, gen=name, cfg={k: str(v) for k, v in cfg.items()}, shards=shards or 16, label=label)


def jobs_C08(tier, scale):
    cl = _classes(ALL8, ["int", "string"])
    pads = "0:0;1:0;0:2;2:1"
    if tier == "quick":
        return [enum_job("iter", "graphs", dict(prop="C08", classes=cl, dmin=0, dmax=3, umin=0, umax=4, orders=3, pads=pads, writers_n=2), tier,
                         "every directed graph on 0..3 and undirected on 0..4 vertices x 3 insertion orders x 4 isolated-vertex paddings, 10 class/label configs")]
    return [enum_job("iter", "graphs", dict(prop="C08", classes=cl, dmin=0, dmax=3, umin=0, umax=4, orders=4, pads=pads, writers_n=3), tier, "small scopes, all paddings"),
            enum_job("iter", "graphs", dict(prop="C08", classes=_classes(["DS", "DL", "DM", "DW"], ["int"]), dmin=4, dmax=4, orders=2, pads="0:0;1:1", writers_n=-1), tier,
                     "every directed graph on 4 vertices (65536) x 2 orders x 2 paddings x 4 classes"),
            enum_job("iter", "graphs", dict(prop="C08", classes=_classes(["US", "UL", "UM", "UW"], ["int"]), umin=5, umax=5, orders=2, pads="0:0;1:1", writers_n=-1), tier,
                     "every undirected graph on 5 vertices (32768) x 2 orders x 2 paddings x 4 classes")]


def graph_job(prop, executor, classes, tier, scale, quick, thorough, label, config="san", max_size=None, **cfg):
    c = dict(prop=prop, classes=classes)
    c.update({k: str(v) for k, v in cfg.items()})
    return dict(engine="pbt", executor=executor, config=config, gen="graph", cfg=c, cases=_n(tier, quick, thorough, scale), shards=8 if tier == "quick" else 16,
                max_size=max_size or (60 if tier == "quick" else 100), label=label)


def jobs_C09(tier, scale):
    cl = _classes(ALL8)
    jobs = [graph_job("C09", "conv", cl, tier, scale, 12000, 300000, "generated graphs (loops, reciprocal pairs with different labels, repeated pairs, isolated vertices)", nmax=9, pads=1),
            enum_job("conv", "graphs", dict(prop="C09", classes=_classes(["DS", "DL", "DM", "DW"], ["int", "struct"]), dmin=0, dmax=2 if tier == "quick" else 3, orders=2, pads="0:0;1:1"), tier,
                     "every directed graph on <=%d vertices" % (2 if tier == "quick" else 3)),
            enum_job("conv", "graphs", dict(prop="C09", classes=_classes(["US", "UL", "UM", "UW"], ["int", "struct"]), umin=0, umax=3 if tier == "quick" else 4, orders=2, pads="0:0;1:1"), tier,
                     "every undirected graph on <=%d vertices" % (3 if tier == "quick" else 4))]
    return jobs


def jobs_C10(tier, scale):
    cl = _classes(["DS", "US", "DL", "UL"], ["int", "string"])
    q = tier == "quick"
    return [graph_job("C10", "sub", cl, tier, scale, 4000, 100000, "generated graphs, all 2^n subsets for n<=6, generated subsets above", nmax=9, subsets=6, max_size=50),
            enum_job("sub", "graphs", dict(prop="C10", classes=_classes(["DS", "DL"], ["int"]), dmin=0, dmax=3 if q else 3, orders=2 if q else 3), tier, "every directed graph on <=3 vertices x every subset"),
            enum_job("sub", "graphs", dict(prop="C10", classes=_classes(["US", "UL"], ["int"]), umin=0, umax=3 if q else 4, orders=2), tier,
                     "every undirected graph on <=%d vertices x every subset" % (3 if q else 4))]


def jobs_C11(tier, scale):
    q = tier == "quick"
    cl = _classes(["DS", "US", "DL", "UL"], ["int"])
    jobs = [graph_job("C11", "bfs", cl, tier, scale, 4000, 150000, "generated graphs n<=10 (cycles through the source, loops, components, ties)", nmax=10, max_size=60),
            enum_job("bfs", "graphs", dict(prop="C11", classes="DS:none", dmin=0, dmax=3, orders=2), tier, "every directed graph on <=3 vertices, all sources and destinations"),
            enum_job("bfs", "graphs", dict(prop="C11", classes="US:none", umin=0, umax=4, orders=2), tier, "every undirected graph on <=4 vertices, all sources and destinations")]
    if not q:
        jobs += [enum_job("bfs", "graphs", dict(prop="C11", classes="DS:none", dmin=4, dmax=4, orders=1), tier, "every directed graph on 4 vertices (65536)"),
                 enum_job("bfs", "graphs", dict(prop="C11", classes="US:none", umin=5, umax=5, orders=1), tier, "every undirected graph on 5 vertices (32768)")]
    return jobs


def jobs_C12(tier, scale):
    q = tier == "quick"
    cl = _classes(["DW", "UW"])
    jobs = [graph_job("C12", "dij", cl, tier, scale, 4000, 100000, "generated graphs n<=12, integer weights 0..16 (exact)", nmax=12, xmax=17, extra="wmode int", max_size=60),
            graph_job("C12", "dij", cl, tier, scale, 2000, 60000, "generated graphs, weights k/8 (exact)", nmax=10, xmax=4096, extra="wmode frac", max_size=60),
            graph_job("C12", "dij", cl, tier, scale, 2000, 60000, "generated graphs, weights k/7 (rounded, tolerance 2n*2^-52*max(1,ref))", nmax=10, xmax=600, extra="wmode rounded", max_size=60),
            enum_job("dij", "w4", dict(prop="C12", classes="DW:none", dmin=0, dmax=2, orders=2, extra="wmode abs012"), tier, "directed n<=2 x weights {absent,0,1,2}, all sources"),
            enum_job("dij", "w4", dict(prop="C12", classes="UW:none", umin=0, umax=3, orders=2, extra="wmode abs012"), tier, "undirected n<=3 x weights {absent,0,1,2}, all sources")]
    if not q:
        jobs += [enum_job("dij", "w4", dict(prop="C12", classes="DW:none", dmin=3, dmax=3, orders=1, extra="wmode abs012"), tier, "directed n=3 x weights {absent,0,1,2} (262144)"),
                 enum_job("dij", "w4", dict(prop="C12", classes="UW:none", umin=4, umax=4, orders=1, extra="wmode abs012"), tier, "undirected n=4 x weights {absent,0,1,2} (1048576)")]
    return jobs


def jobs_C19(tier, scale):
    def fam(executor, classes, quick, thorough, label, **cfg):
        c = dict(prop="C19", classes=classes)
        c.update({k: str(v) for k, v in cfg.items()})
        return dict(engine="pbt", executor=executor, config="san", gen="family", cfg=c, cases=_n(tier, quick, thorough, scale), shards=8 if tier == "quick" else 16, max_size=100, label=label)
    return [fam("bfs", _classes(["DS", "US", "DL", "UL"], ["int"]), 600, 12000, "layered / grid / complete DAG / ladder / diamond-chain families, every source: BFS scans <= V and <= V+E"),
            fam("dij", _classes(["DW", "UW"]), 600, 12000, "the same families with all-zero, all-one and varying weights: Dijkstra scans <= V+E+1"),
            graph_job("C19", "bfs", _classes(["DS", "US"]), tier, scale, 1500, 40000, "random graphs n<=40", nmax=40, max_size=100),
            graph_job("C19", "dij", _classes(["DW", "UW"]), tier, scale, 1500, 40000, "random weighted graphs n<=30, weights 0..4 (ties and zero-weight cycles)", nmax=30, xmax=5, extra="wmode int", max_size=100)]


RULE_HIST = ("rapidcheck-generated call histories (0-%d ops, sizes 0-12) executed against the real class and an independent std::map model; "
             "all public observers compared after every step. ")

PROPS = {
    "C01": dict(jobs=jobs_C01, min_nontrivial=dict(quick=500, thorough=5000),
                rule=RULE_HIST % 80 + "Non-trivial: >=3 distinct mutator kinds, >=1 removal that removed something and >=1 no-op re-add or absent removal; distinct by hash of the case text.",
                assumptions=["reference model written from the documentation", "neighbour order is not asserted"]),
    "C02": dict(jobs=jobs_C02, min_nontrivial=dict(quick=300, thorough=3000),
                rule=RULE_HIST % 80 + "Non-trivial: >=3 mutator kinds and (a self-loop on a vertex later passed to removeVertexFromEdgeList, or a removeEdge naming the pair in the orientation opposite to its creation).",
                assumptions=["reference model written from the documentation"]),
    "C03": dict(jobs=jobs_C03, min_nontrivial=dict(quick=500, thorough=5000),
                rule=RULE_HIST % 80 + "Non-trivial: the labels of all pairs are read after an edge with a label was removed by clearEdges, removeVertexFromEdgeList or removeSelfLoops (not only removeEdge).",
                assumptions=["setEdgeLabel(force=true) on an absent edge is never generated (documented orphan)"]),
    "C04": dict(jobs=jobs_C04, min_nontrivial=dict(quick=300, thorough=3000),
                rule=RULE_HIST % 80 + "Non-trivial: >=4 op kinds and (setEdgeMultiplicity(.,.,0) on a pair of multiplicity >=2 or a bulk removal touching such a pair).",
                assumptions=["multiplicities stay below 2^20 (no unsigned wrap-around)"]),
    "C05": dict(jobs=jobs_C05, min_nontrivial=dict(quick=300, thorough=3000),
                rule=RULE_HIST % 80 + "Non-trivial: >=4 op kinds and (setEdgeWeight on a present undirected pair named in descending order, or the total read after an effective bulk removal). "
                "Exact mode: weights k/8, |k|<=2^16, total must be equal; rounded mode: tolerance (m+1)*2^-50*(1+sum|w|).",
                assumptions=["finite weights only"]),
    "C06": dict(jobs=jobs_C06, min_nontrivial=dict(quick=500, thorough=5000),
                rule="rapidcheck-generated pairs of histories on each of the eight classes (labels int/string/struct): (a) the same value rebuilt in a generated order/orientation "
                "with detours through removed ghost edges and corrected labels, (b) the same plus one further mutation, (c) independent small histories, (d) copies (construction / assignment) "
                "mutated afterwards. Oracle: ==, != in both directions and reflexivity against value equality of the two models; a copy shows the same observations and never moves when "
                "the other side is mutated. Non-trivial: equality decided after a removal in either history, a rebuilt history containing removals, or models differing in exactly one place.",
                assumptions=["duplicate-free histories (force off)", "weights exactly representable"]),
    "C07": dict(jobs=jobs_C07, min_nontrivial=dict(quick=500, thorough=5000),
                rule="rapidcheck-generated histories on the eight classes in which rejected calls are mixed with valid ones: random cells of the matrix {public entry point taking a vertex index, "
                "getSubgraph / getSubgraphWithRemap with a bad member, the six breadth-first searches, Dijkstra} x {argument position(s)} x {n, n+1, n+7, UINT_MAX} x {every flag combination incl. force=true}, "
                "resize to fewer vertices, unforced setEdgeLabel on an absent edge; plus the complete matrix at the final state of each history of the second job. Oracle: exact exception type "
                "(std::out_of_range resp. std::invalid_argument), exact snapshot of all observers identical before/after, no sanitizer or libstdc++ debug-mode report. "
                "Non-trivial: a rejected call in a state with >=1 edge followed by >=1 valid mutator.",
                assumptions=["find...FromPredecessors helpers are not part of the matrix (they take a caller-supplied table, not named by the property)"]),
    "C08": dict(jobs=jobs_C08, min_nontrivial=dict(quick=1000, thorough=10000), exhaustive=True,
                exhaustive_scope=dict(quick="all loop-allowing directed graphs on n<=3 and undirected on n<=4, every class", thorough="plus directed n=4 (65536) and undirected n=5 (32768)"),
                rule="bounded-exhaustive enumeration of every edge set (bit mask over all pairs, self-loops included) for the stated sizes, each built in several insertion orders and "
                "orientations and padded with isolated vertices in front (index shift) and behind (resize); all eight classes. Oracle: for(v:g) yields 0..n-1 by pre- and post-increment; "
                "edges() traversed with ++it, it++ (result must denote the old position), twice and by range-for gives four identical sequences equal as a multiset to the model; "
                "begin()==end() iff no edge; step cap; all observers, getReversedGraph/getDirectedGraph and the text/binary writers defined and right. "
                "Non-trivial: n=0, no edge, first or last vertex isolated, or a neighbour list not in ascending order; distinct by case text.",
                assumptions=["insertion orders are a fixed family of permutations, not all n! orders"]),
    "C09": dict(jobs=jobs_C09, min_nontrivial=dict(quick=500, thorough=5000), build_error_is_violation=True,
                rule="rapidcheck-generated graphs of all eight classes (labels int/string/struct; asymmetric labels on reciprocal pairs, loops, isolated and zero vertices, repeated pairs) "
                "plus every topology of the small exhaustive scopes. Oracle over all pairs: getReversedGraph = flipped edges with labels, twice = identity; getDirectedGraph = both orientations "
                "(one for a loop) with the pair's label, nothing else; undirected-from-directed joins exactly the pairs connected either way with one of their labels; u->d->u identity; "
                "constructors from vector/list/deque/forward_list/set/multiset: size 1+max index (0 if empty), result == resize + one add per element, same observations; "
                "copy construction/assignment equal and independent both ways. Non-trivial: a non-loop edge with a non-default label crosses a conversion, or a constructor input with a repeated pair.",
                assumptions=["set/multiset containers are skipped for the struct label (no operator<)"]),
    "C10": dict(jobs=jobs_C10, min_nontrivial=dict(quick=300, thorough=3000),
                rule="generated graphs (directed/undirected, labels none/int/string, loops) and every graph of the small exhaustive scopes; for n<=6 all 2^n vertex subsets, above that generated subsets plus the "
                "empty and the full set. Oracle: getSubgraph has size n and exactly the induced edges with their labels, each listed once, edge count = induced count; getSubgraphWithRemap has size |S|, "
                "its map is a bijection of S onto 0..|S|-1 (any bijection accepted) under which edges and labels are exactly the induced ones; the source graph is unchanged. "
                "Non-trivial: a proper non-empty S with >=1 edge inside and >=1 edge crossing its boundary.", assumptions=[]),
    "C11": dict(jobs=jobs_C11, min_nontrivial=dict(quick=300, thorough=3000), exhaustive_scope=dict(quick="directed n<=3, undirected n<=4", thorough="directed n<=4, undirected n<=5"),
                rule="every graph of the exhaustive scopes and generated graphs n<=10, every source and destination. Reference: all-pairs hop distances by repeated relaxation on the model, the set of all "
                "shortest paths by recursion over in-neighbours one hop closer. Oracle: both predecessor searches return the reference distances (sentinel when unreachable); the single predecessor is "
                "an in-neighbour one hop closer; the all-predecessor list is exactly that set without repeats; findGeodesics / ...FromVertex return [s], empty, or a walk along edges with dist hops; "
                "findAllGeodesics / ...FromVertex equal the reference set (no duplicate, none missing). Which shortest path is chosen is not asserted. "
                "Non-trivial: >=2 shortest paths to some vertex, a cycle through the source, or an unreachable vertex.", assumptions=[]),
    "C12": dict(jobs=jobs_C12, min_nontrivial=dict(quick=300, thorough=3000), exhaustive_scope=dict(quick="directed n<=2, undirected n<=3 x {absent,0,1,2}", thorough="directed n<=3, undirected n<=4 x {absent,0,1,2}"),
                rule="exhaustive small topologies x weight alphabet {absent,0,1,2} and generated graphs n<=12 (integer, k/8 and k/7 weights), every source. Reference: Bellman-Ford on the model. "
                "Oracle: distances equal the reference (exactly in the exact modes, within 2n*2^-52*max(1,ref) otherwise), dist[s]=0, pred[s]=s, reached v: edge (pred,v) exists and "
                "dist[v]=dist[pred]+w, unreachable: +inf and sentinel; termination asserted by a scan budget of 100(V+E+1) on an instrumented graph type. "
                "Non-trivial: a zero-weight cycle, two routes of equal weight, or an unreachable vertex.", assumptions=["weights >= 0 and finite"]),
    "C19": dict(jobs=jobs_C19, min_nontrivial=dict(quick=200, thorough=2000),
                rule="graph families with exponentially many shortest paths (layered width 2-4 x depth <=40, grids, diamond chains), complete DAGs, bidirected ladders with zero-weight cycles, and random "
                "graphs; every source. The searches run on an instrumented graph type that counts getOutNeighbours calls and throws beyond the stated bound: <=V (findVertexPredecessors), "
                "<=V+E (findAllVertexPredecessors), <=V+E+1 (findGeodesicsDijkstra, weights>=0), E = total neighbour-list length. "
                "Non-trivial: some vertex has more shortest paths than V+E (BFS) or the graph has a tie or zero-weight cycle (Dijkstra).",
                assumptions=["one getOutNeighbours call per neighbourhood scan (the observation the property names)"]),
    "C16": dict(jobs=jobs_C16, min_nontrivial=dict(quick=300, thorough=3000),
                rule=RULE_HIST % 80 + "Non-trivial: a forced duplicate exists and is later removed by removeDuplicateEdges or removeEdge.",
                assumptions=["all copies of a pair carry the same label/weight/multiplicity (by construction)", "multigraph: weaker reading (deduplicated graph holds each pair once with the multiplicity its copies carried)"]),
}

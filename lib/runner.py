"""check.py implementation: build, shard, run, merge, triage, evidence."""
import array
import concurrent.futures
import hashlib
import json
import os
import shutil
import subprocess
import sys
import tempfile
import time

from . import build, props

VERIF = build.VERIF
# VERIF_EVIDENCE_DIR: sensitivity runs (tools/mutant_run.py) write their evidence and replay files elsewhere
EVIDENCE = os.environ.get("VERIF_EVIDENCE_DIR") or os.path.join(VERIF, "evidence")
REPLAYS = os.path.join(EVIDENCE, "replays")
FINDINGS = os.environ.get("VERIF_FINDINGS", os.path.join(VERIF, "KNOWN_FINDINGS.txt"))  # the override exists for testing the mechanism only


def log(*a):
    print(*a, file=sys.stderr, flush=True)


# ----------------------------------------------------------------- findings
def load_findings():
    out = []
    if not os.path.exists(FINDINGS):
        return out
    for line in open(FINDINGS):
        line = line.strip()
        if not line.startswith("finding:"):
            continue
        body = line[len("finding:"):].strip()
        head, _, what = body.partition(" :: ")
        d = {"what": what.strip()}
        for tok in head.split():
            if "=" in tok:
                k, v = tok.split("=", 1)
                d[k] = v
        out.append(d)
    return out


# ----------------------------------------------------------------- scratch
def make_scratch():
    base = "/dev/shm" if os.path.isdir("/dev/shm") and os.access("/dev/shm", os.W_OK) else os.path.join(build.BUILD, "scratch")
    os.makedirs(base, exist_ok=True)
    return tempfile.mkdtemp(prefix="verif_", dir=base)


def san_env(extra=None):
    env = os.environ.copy()
    env["ASAN_OPTIONS"] = "detect_leaks=1:abort_on_error=0:exitcode=97:allocator_may_return_null=0:malloc_context_size=12:hard_rss_limit_mb=3000:max_allocation_size_mb=2000"
    env["UBSAN_OPTIONS"] = "print_stacktrace=1:halt_on_error=1:exitcode=96"
    env["TSAN_OPTIONS"] = "halt_on_error=1:exitcode=95:second_deadlock_stack=1"
    env["VERIF_SCRATCH"] = env.get("VERIF_SCRATCH", "")
    if extra:
        env.update(extra)
    return env


# ----------------------------------------------------------------- shard execution
def read_marker(path):
    try:
        with open(path, "rb") as f:
            head = f.read(8)
            if len(head) < 8:
                return None
            n = int.from_bytes(head, "little")
            if n == 0 or n > (1 << 20):
                return None
            return f.read(n).decode("utf-8", "replace")
    except OSError:
        return None


def run_pbt_shard(spec):
    """spec: dict(binary, gen, cfg, seed, cases, max_size, scratch, name, timeout)"""
    out = os.path.join(spec["scratch"], spec["name"] + ".json")
    marker = os.path.join(spec["scratch"], spec["name"] + ".marker")
    # jobs whose single cases take seconds (thousands of edges) are not shrunk by the library: hundreds of re-executions per shard
    noshrink = " noshrink=1" if (spec.get("extra", {}) or {}).get("noshrink") else ""
    env = san_env({"RC_PARAMS": "seed=%d max_success=%d max_size=%d max_discard_ratio=50%s" % (spec["seed"], spec["cases"], spec["max_size"], noshrink),
                   "VERIF_SCRATCH": spec["scratch"]})
    cfg = ",".join("%s=%s" % kv for kv in spec["cfg"].items())
    cmd = [spec["binary"], "--gen", spec["gen"], "--cfg", cfg, "--out", out, "--marker", marker, "--samples", "3"]
    dump = None
    if spec.get("extra", {}).get("dump"):
        dump = os.path.join(spec["scratch"], spec["name"] + ".dump")
        cmd += ["--dump", dump]
    if spec.get("extra", {}).get("trail"):
        cmd += ["--trail", spec["extra"]["trail"]]
    if spec.get("extra", {}).get("valgrind"):
        cmd = ["valgrind", "-q", "--error-exitcode=98", "--exit-on-first-error=yes", "--track-origins=no", "--leak-check=no"] + cmd
    res = run_shard_generic(spec, cmd, env, out, marker)
    res["dump"] = dump
    return res


def run_enum_shard(spec):
    out = os.path.join(spec["scratch"], spec["name"] + ".json")
    marker = os.path.join(spec["scratch"], spec["name"] + ".marker")
    env = san_env({"VERIF_SCRATCH": spec["scratch"]})
    cfg = ",".join("%s=%s" % kv for kv in spec["cfg"].items())
    cmd = [spec["binary"], "--enum", spec["gen"], "--cfg", cfg, "--shard", "%d/%d" % (spec["shard"], spec["nshards"]), "--out", out, "--marker", marker]
    return run_shard_generic(spec, cmd, env, out, marker)


def run_fuzz_shard(spec):
    """libFuzzer campaign: fresh corpus dir (optionally the committed seed corpus), pinned -seed/-runs"""
    ex = spec["extra"]
    out = os.path.join(spec["scratch"], spec["name"] + ".json")
    marker = os.path.join(spec["scratch"], spec["name"] + ".marker")
    fail = os.path.join(spec["scratch"], spec["name"] + ".fail")
    corpus = os.path.join(spec["scratch"], spec["name"] + "_corpus")
    os.makedirs(corpus, exist_ok=True)
    seeded = False
    seeds = os.path.join(VERIF, "fuzzseeds", ex["target"])
    # even shards start from the committed seed corpus, odd shards from an empty one
    if os.path.isdir(seeds) and spec["shard"] % 2 == 0:
        for f in sorted(os.listdir(seeds)):
            shutil.copy(os.path.join(seeds, f), os.path.join(corpus, f))
        seeded = True
    env = san_env({"VERIF_SCRATCH": spec["scratch"], "VERIF_FUZZ_TARGET": ex["target"], "VERIF_FUZZ_OUT": out, "VERIF_FUZZ_FAIL": fail,
                   "VERIF_FUZZ_MARKER": marker, "VERIF_FUZZ_PROP": ex.get("prop", "C15")})
    cmd = [spec["binary"], corpus, "-seed=%d" % (spec["seed"] % 2000000000 + 1), "-runs=%d" % spec["cases"], "-max_len=%d" % ex.get("max_len", 256),
           "-artifact_prefix=" + os.path.join(spec["scratch"], spec["name"] + "_art_"), "-rss_limit_mb=4096", "-malloc_limit_mb=2048", "-timeout=30",
           "-print_final_stats=1", "-reduce_inputs=1", "-len_control=50"]
    d = os.path.join(VERIF, "fuzzseeds", ex["target"] + ".dict")
    if os.path.exists(d):
        cmd.append("-dict=" + d)
    res = run_shard_generic(spec, cmd, env, out, marker)
    res["fuzz_seeded"] = seeded
    rc = res.get("returncode")
    st = res.get("stats")
    # libFuzzer: 70 timeout, 71 oom = load noise, never a violation
    if rc in (70, 71) and not (st and st.get("failed")):
        res["ok"] = True
        res["noise"] = "libFuzzer rc=%s (timeout/oom artifact ignored)" % rc
        res["marker_case"] = None
    return res


def run_shard_generic(spec, cmd, env, out, marker):
    t0 = time.time()
    res = dict(name=spec["name"], job=spec["job"], cmd=" ".join(cmd), rc_params=env.get("RC_PARAMS", ""))
    try:
        r = subprocess.run(cmd, env=env, capture_output=True, timeout=spec.get("timeout", 3600))
        res["returncode"] = r.returncode
        res["stderr"] = r.stderr.decode("utf-8", "replace")[-8000:]
        res["stdout"] = r.stdout.decode("utf-8", "replace")[-4000:]
    except subprocess.TimeoutExpired:
        res["returncode"] = None
        res["timeout"] = True
        res["stderr"] = ""
    res["wall"] = time.time() - t0
    stats = None
    if os.path.exists(out):
        try:
            stats = json.load(open(out))
        except Exception:
            stats = None
    res["stats"] = stats
    hashes = set()
    hp = out + ".hashes"
    if os.path.exists(hp):
        a = array.array("Q")
        with open(hp, "rb") as f:
            data = f.read()
        a.frombytes(data[: len(data) // 8 * 8])
        hashes = set(a)
    res["hashes"] = hashes
    res["marker_case"] = read_marker(marker)
    return res


SHARD_RUNNERS = {"pbt": run_pbt_shard, "enum": run_enum_shard, "fuzz": run_fuzz_shard}


def register_engine(name, fn):
    SHARD_RUNNERS[name] = fn


# ----------------------------------------------------------------- replay / minimise
def replay_case(replay_bin, text, scratch, tag="r", timeout=300):
    p = os.path.join(scratch, "replay_%s_%d.case" % (tag, os.getpid()))
    with open(p, "w") as f:
        f.write(text)
    try:
        r = subprocess.run([replay_bin, p], env=san_env({"VERIF_SCRATCH": scratch}), capture_output=True, timeout=timeout)
        return r.returncode, (r.stdout.decode("utf-8", "replace") + r.stderr.decode("utf-8", "replace"))
    except subprocess.TimeoutExpired:
        return None, "timeout"


def failing(rc):
    return rc is None or rc not in (0, 2)


def ddmin_ops(replay_bin, text, scratch, budget=400):
    """delta debugging over the `op` lines of a crashing case"""
    lines = text.splitlines()
    head = [l for l in lines if not l.startswith("op ")]
    ops = [l for l in lines if l.startswith("op ")]
    runs = 0

    def still_fails(cand):
        nonlocal runs
        runs += 1
        rc, _ = replay_case(replay_bin, "\n".join(head + cand) + "\n", scratch, "dd")
        return failing(rc)

    n = 2
    while len(ops) >= 1 and runs < budget:
        chunk = max(1, len(ops) // n)
        reduced = False
        i = 0
        while i < len(ops) and runs < budget:
            cand = ops[:i] + ops[i + chunk:]
            if still_fails(cand):
                ops = cand
                reduced = True
            else:
                i += chunk
        if not reduced:
            if chunk == 1:
                break
            n = min(len(ops), n * 2)
        else:
            n = max(2, n - 1)
    return "\n".join(head + ops) + "\n"


CASE_SEP = "%%%% next case\n"


def ddmin_cases(replay_bin, cases, scratch, budget=200):
    """delta debugging over the earlier cases of a sequence whose last case fails only after them"""
    last = cases[-1]
    prefix = list(cases[:-1])
    runs = 0

    def still_fails(cand):
        nonlocal runs
        runs += 1
        rc, _ = replay_case(replay_bin, CASE_SEP.join(cand + [last]), scratch, "ddc", timeout=600)
        return rc is not None and failing(rc)  # a time-out is never a failure

    n = 2
    while len(prefix) >= 1 and runs < budget:
        chunk = max(1, len(prefix) // n)
        reduced = False
        i = 0
        while i < len(prefix) and runs < budget:
            cand = prefix[:i] + prefix[i + chunk:]
            if still_fails(cand):
                prefix = cand
                reduced = True
            else:
                i += chunk
        if not reduced:
            if chunk == 1:
                break
            n = min(len(prefix), n * 2)
        else:
            n = max(2, n - 1)
    return prefix + [last]


def history_repro(spec, replay_bin, scratch):
    """A shard failed on a case that passes when it runs alone in a fresh process: the failure may need what the process
    executed before (state kept between calls).  The shard is run again with the same parameters, recording every case up
    to the first failing one; that sequence is replayed in one process and minimised.  Returns the text of a multi-case
    replay file that fails 3 times out of 3, or None."""
    if spec.get("engine") != "pbt":
        return None
    s2 = dict(spec)
    s2["name"] = spec["name"] + "_trail"
    trail = os.path.join(scratch, s2["name"] + ".trail")
    s2["extra"] = dict(spec.get("extra", {}) or {})
    s2["extra"]["trail"] = trail
    s2["extra"].pop("dump", None)
    run_pbt_shard(s2)
    try:
        text = open(trail, errors="replace").read()
    except OSError:
        return None
    cases = [c for c in text.split(CASE_SEP) if c.strip()]
    if not cases or len(cases) > 200000:
        return None
    whole = CASE_SEP.join(cases)
    for _ in range(3):
        rc, _o = replay_case(replay_bin, whole, scratch, "trail", timeout=900)
        if rc is None or not failing(rc):
            return None
    small = ddmin_cases(replay_bin, cases, scratch)
    text = CASE_SEP.join(small)
    for _ in range(3):
        rc, _o = replay_case(replay_bin, text, scratch, "trail", timeout=600)
        if rc is None or not failing(rc):
            return whole
    return text


def sanitizer_summary(output):
    for line in output.splitlines():
        if line.startswith("Error: "):  # libstdc++ debug mode
            return line.strip()[:300]
    for line in output.splitlines():
        if "SUMMARY:" in line or "runtime error:" in line or "Error: attempt to" in line or "Assertion" in line:
            return line.strip()[:300]
    for line in output.splitlines():
        if "ERROR" in line:
            return line.strip()[:300]
    return "abnormal termination"


# ----------------------------------------------------------------- main flow
def write_replay(pid, text, note=""):
    os.makedirs(REPLAYS, exist_ok=True)
    h = hashlib.sha256(text.encode()).hexdigest()[:12]
    p = os.path.join(REPLAYS, "%s-%s.case" % (pid, h))
    with open(p, "w") as f:
        if note:
            for l in note.splitlines():
                f.write("# " + l + "\n")
        f.write(text)
    return p


def executor_of_case(pid, text):
    for l in text.splitlines():
        if l.startswith("# executor:"):
            return l.split(":", 1)[1].strip().split()
    return None


def main(argv):
    import argparse

    ap = argparse.ArgumentParser()
    ap.add_argument("prop", nargs="?")
    ap.add_argument("--tier", default=os.environ.get("VERIF_TIER", "quick"))
    ap.add_argument("--replay")
    ap.add_argument("--build-all", action="store_true")
    ap.add_argument("--seed", type=int, default=int(os.environ.get("VERIF_SEED", "1") or 1))
    ap.add_argument("--scale", type=float, default=float(os.environ.get("VERIF_SCALE", "1")))
    args = ap.parse_args(argv)

    if args.build_all:
        return build_all()
    if not args.prop:
        ap.error("property id required")
    pid = args.prop
    if pid not in props.PROPS:
        log("unknown property", pid)
        return 2
    if args.replay:
        return do_replay(pid, args.replay)
    return run_check(pid, args.tier, args.seed, args.scale)


def build_all():
    targets = set()
    for pid, p in props.PROPS.items():
        for tier in ("quick",):
            for job in p["jobs"](tier, 1):
                targets |= set(job_targets(job))
    try:
        build.build_many(sorted(targets))
    except build.BuildError as e:
        log("BUILD FAILED\n" + e.log)
        return 2
    return 0


def job_targets(job):
    if job["engine"] == "custom":
        return job.get("targets", [])
    fe = job.get("frontend", job["engine"])
    t = [(fe, job["executor"], job.get("config", "san"))]
    t.append(("replay", job["executor"], job.get("replay_config", job.get("config", "san"))))
    return t


def do_replay(pid, path):
    text = open(path).read()
    p = props.PROPS[pid]
    ex = executor_of_case(pid, text)
    if ex:
        executor, config = ex[0], (ex[1] if len(ex) > 1 else "san")
    else:
        j = p["jobs"]("quick", 1)[0]
        executor, config = j["executor"], j.get("config", "san")
    if "replay_hook" in p:
        rv = p["replay_hook"](pid, os.path.abspath(path), text)
        if rv is not None:
            return rv
    if "buildcheck 1" in text:
        targets = set()
        for j in p["jobs"]("quick", 1):
            targets |= set(job_targets(j))
        try:
            build.build_many(sorted(targets))
        except build.BuildError as e:
            log(e.log[-4000:])
            print("VIOLATION property=%s replay=%s" % (pid, os.path.abspath(path)))
            return 1
        print("replay passes: the executors of %s compile against %s" % (pid, build.REPO))
        return 0
    try:
        bins = build.build_many([("replay", executor, config)])
    except build.BuildError as e:
        log("BUILD FAILED\n" + e.log)
        return 2
    scratch = make_scratch()
    try:
        rc, out = replay_case(bins[("replay", executor, config)], text, scratch, timeout=900 if CASE_SEP in text else 300)
    finally:
        shutil.rmtree(scratch, ignore_errors=True)
    print(out)
    if failing(rc):
        print("VIOLATION property=%s replay=%s" % (pid, os.path.abspath(path)))
        return 1
    print("replay passes: property=%s case=%s" % (pid, path))
    return 0


def run_check(pid, tier, seed, scale=1.0):
    t0 = time.time()
    p = props.PROPS[pid]
    jobs = p["jobs"](tier, scale)
    findings = [f for f in load_findings() if f.get("property") == pid]
    scratch = make_scratch()
    try:
        return _run_check(pid, p, tier, seed, jobs, findings, scratch, t0, scale)
    finally:
        shutil.rmtree(scratch, ignore_errors=True)
        build.prune_cache()


def _run_check(pid, p, tier, seed, jobs, findings, scratch, t0, scale=1.0):
    # ---- build
    targets = set()
    for j in jobs:
        targets |= set(job_targets(j))
    try:
        bins = build.build_many(sorted(targets))
    except build.BuildError as e:
        if p.get("build_error_is_violation"):
            # the executor of this property instantiates documented entry points; if it does not
            # compile against the tree, the documented use does not compile
            first = [l for l in e.log.splitlines() if "error" in l][:1]
            note = "buildlog\nproperty %s: the documented entry points exercised by the executor do not compile against %s\n%s" % (pid, build.REPO, e.log[-6000:])
            path = write_replay(pid, "prop %s\nbuildcheck 1\n" % pid, note)
            log("---- violation of %s (compile failure) ----\n%s" % (pid, e.log[-4000:]))
            print("VIOLATION property=%s replay=%s" % (pid, path))
            ev = dict(property_id=pid, tier=tier, seed=seed, level=p.get("level", "exploration"),
                      coverage=dict(evaluations=1, distinct_nontrivial=0, rule=p["rule"], samples=["(compile failure) " + (first[0] if first else "")]),
                      assumptions=p.get("assumptions", []), wall_s=round(time.time() - t0, 2), violations=1)
            os.makedirs(EVIDENCE, exist_ok=True)
            with open(os.path.join(EVIDENCE, pid + ".json"), "w") as f:
                json.dump(ev, f, indent=1)
            return 1
        log("BUILD FAILED for %s: the harness does not compile against %s\n%s" % (pid, build.REPO, e.log))
        print("BROKEN property=%s reason=build-failed" % pid)
        return 2

    violations = []   # dict(case, message, key, executor, config, crashed)
    known_hits = []
    notes = []

    # ---- regression corpus first (saved shrunk failures; plain replays, no library)
    corpus_dir = os.path.join(VERIF, "corpus", pid)
    corpus_run = 0
    if os.path.isdir(corpus_dir):
        for f in sorted(os.listdir(corpus_dir)):
            if not f.endswith(".case"):
                continue
            text = open(os.path.join(corpus_dir, f)).read()
            ex = executor_of_case(pid, text) or [jobs[0]["executor"], jobs[0].get("config", "san")]
            key = ("replay", ex[0], ex[1] if len(ex) > 1 else "san")
            if key not in bins:
                try:
                    bins.update(build.build_many([key]))
                except build.BuildError as e:
                    log("BUILD FAILED (corpus)\n" + e.log)
                    return 2
            rc, out = replay_case(bins[key], text, scratch, "corpus")
            corpus_run += 1
            if failing(rc):
                violations.append(dict(case=text, message="regression corpus case %s fails:\n%s" % (f, out[-3000:]), key=_key_from_output(out),
                                       executor=ex[0], config=key[2], crashed=rc not in (1,)))

    # ---- shards
    specs = []
    for ji, j in enumerate(jobs):
        if j["engine"] == "custom":
            continue
        nsh = max(1, int(j.get("shards", 4)))
        total = int(j.get("cases", 0))
        per = max(1, total // nsh)
        fe = j.get("frontend", j["engine"])
        for s in range(nsh):
            specs.append(dict(engine=j["engine"], binary=bins[(fe, j["executor"], j.get("config", "san"))], gen=j.get("gen", ""), cfg=dict(j.get("cfg", {})),
                              seed=(seed * 1000003 + j.get("seed_group", ji) * 1009 + s) % (1 << 62), cases=per, max_size=j.get("max_size", 60), scratch=scratch,
                              name="j%d_s%d" % (ji, s), job=ji, shard=s, nshards=nsh, timeout=j.get("timeout", 1800 if tier == "quick" else 7200),
                              extra=j.get("extra", {})))
    results = []
    if specs:
        with concurrent.futures.ThreadPoolExecutor(max_workers=build.NJOBS) as pool:
            futs = [pool.submit(SHARD_RUNNERS[s["engine"]], s) for s in specs]
            for f in futs:
                results.append(f.result())

    # ---- custom jobs (python functions; run after the sharded ones)
    custom_cov = []
    for ji, j in enumerate(jobs):
        if j["engine"] != "custom":
            continue
        r = j["fn"](dict(pid=pid, tier=tier, seed=seed, scratch=scratch, bins=bins, job=j))
        custom_cov.append(r)
        for v in r.get("violations", []):
            violations.append(v)
        if r.get("broken"):
            notes.append("custom job %s broken: %s" % (j.get("label", ji), r["broken"]))

    # ---- merge
    spec_by_name = {sp["name"]: sp for sp in specs}
    evaluations = corpus_run
    hashes = set()
    tags = {}
    samples = []
    per_job = {}
    broken = []
    for r in results:
        j = jobs[r["job"]]
        st = r.get("stats")
        pj = per_job.setdefault(r["job"], dict(label=j.get("label", ""), engine=j["engine"], executor=j["executor"], config=j.get("config", "san"),
                                               evaluations=0, nontrivial_total=0, shards=0, wall_s=0.0))
        pj["shards"] += 1
        pj["wall_s"] = round(pj["wall_s"] + r.get("wall", 0), 2)
        if st:
            evaluations += st["evaluations"]
            pj["evaluations"] += st["evaluations"]
            pj["nontrivial_total"] += st.get("nontrivial_total", 0)
            for k, v in st.get("tags", {}).items():
                tags[k] = tags.get(k, 0) + v
            if len(samples) < 6:
                samples += st.get("samples", [])[:2]
            for k in ("work_max",):
                if st.get(k):
                    pj[k] = max(pj.get(k, 0), st[k])
            if st.get("work_sum"):
                pj["work_total"] = pj.get("work_total", 0) + st["work_sum"]
            if st.get("inapplicable"):
                pj["outside_domain_skipped"] = pj.get("outside_domain_skipped", 0) + st["inapplicable"]
            if "fuzz_seeded" in r:
                pj["shards_with_seed_corpus"] = pj.get("shards_with_seed_corpus", 0) + (1 if r["fuzz_seeded"] else 0)
            for k, v in st.get("extra", {}).items() if isinstance(st.get("extra"), dict) else []:
                pj[k] = pj.get(k, 0) + v if isinstance(v, (int, float)) else v
        hashes |= r.get("hashes", set())
        exe, config = j["executor"], j.get("config", "san")
        replay_bin = bins.get(("replay", exe, j.get("replay_config", config)))
        config = j.get("replay_config", config)
        if r.get("timeout"):
            broken.append("shard %s timed out (inconclusive)" % r["name"])
            continue
        if st and st.get("finished") and st.get("failed"):
            # shrunk counterexample from the library; confirm by bare replay
            case = st["fail_case"]
            ok_repro = 0
            out = ""
            for _ in range(3):
                rc, out = replay_case(replay_bin, case, scratch)
                if failing(rc):
                    ok_repro += 1
            if ok_repro == 3:
                violations.append(dict(case=case, message=st["fail_message"], key=st["fail_key"], executor=exe, config=config, crashed=False,
                                       rc_params=r.get("rc_params"), first_case=st.get("first_fail_case")))
            else:
                seq = history_repro(spec_by_name.get(r["name"], {}), replay_bin, scratch) if ok_repro == 0 else None
                if seq:
                    ncases = seq.count(CASE_SEP) + 1
                    violations.append(dict(case=seq, message="fails only after earlier cases executed in the same process (state kept between calls); %d case(s) in the replay file, "
                                           "the last one fails, alone it passes\n%s" % (ncases, st["fail_message"]), key=st["fail_key"] + "|after-earlier-cases", executor=exe, config=config,
                                           crashed=False, rc_params=r.get("rc_params")))
                else:
                    broken.append("shard %s reported a failure that replays only %d/3 times (harness not deterministic?)\n%s" % (r["name"], ok_repro, st["fail_message"]))
        elif st and st.get("finished") and r["returncode"] == 0:
            pass
        elif "violation" in r:
            violations.append(r["violation"])
        elif r.get("ok"):
            pass
        else:
            # abnormal end: sanitizer / debug-mode abort / crash.  Recover the case in flight.
            case = r.get("marker_case")
            if not case:
                broken.append("shard %s ended abnormally (rc=%s) without a case in flight\n%s" % (r["name"], r.get("returncode"), r.get("stderr", "")[-3000:]))
                continue
            n_fail = 0
            out = ""
            for _ in range(3):
                rc, o = replay_case(replay_bin, case, scratch)
                if failing(rc):
                    n_fail += 1
                    out = o
            if n_fail < 3:
                seq = history_repro(spec_by_name.get(r["name"], {}), replay_bin, scratch) if n_fail == 0 else None
                if seq:
                    rc, out = replay_case(replay_bin, seq, scratch)
                    summ = sanitizer_summary(out)
                    cls = ""
                    for l in seq.split(CASE_SEP)[-1].splitlines():
                        if l.startswith("class "):
                            cls = l.split(None, 1)[1]
                    violations.append(dict(case=seq, message="process aborted, only after earlier cases executed in the same process (state kept between calls): %s\n%s" % (summ, out[-3000:]),
                                           key="%s|abort|%s|after-earlier-cases" % (cls, _abort_kind(summ)), executor=exe, config=config, crashed=True))
                    continue
                broken.append("shard %s aborted but the case in flight replays clean %d/3 times\n%s" % (r["name"], 3 - n_fail, r.get("stderr", "")[-3000:]))
                continue
            small = ddmin_ops(replay_bin, case, scratch)
            rc, out2 = replay_case(replay_bin, small, scratch)
            if failing(rc):
                case, out = small, out2
            summ = sanitizer_summary(out)
            cls = ""
            for l in case.splitlines():
                if l.startswith("class "):
                    cls = l.split(None, 1)[1]
            violations.append(dict(case=case, message="process aborted while executing this case: %s\n%s" % (summ, out[-3000:]),
                                   key="%s|abort|%s" % (cls, _abort_kind(summ)), executor=exe, config=config, crashed=True))

    # ---- property-specific cross-job oracle (e.g. C17: digests equal across build configurations)
    post_cov = {}
    if p.get("post_merge"):
        pm = p["post_merge"](dict(pid=pid, tier=tier, seed=seed, jobs=jobs, results=results, bins=bins, scratch=scratch, specs=specs))
        violations += pm.get("violations", [])
        broken += pm.get("broken", [])
        post_cov = pm.get("coverage", {})

    # ---- one report per root-cause key (the smallest reproduction of each)
    by_key = {}
    for v in violations:
        k = v["key"]
        if k not in by_key or len(v["case"]) < len(by_key[k]["case"]):
            by_key[k] = v
    violations = [by_key[k] for k in sorted(by_key)]

    # ---- classify violations against the known-findings file
    fresh = []
    for v in violations:
        hit = None
        for f in findings:
            if f.get("key") and f["key"] == v["key"]:
                hit = f
        if hit:
            known_hits.append((hit, v))
        else:
            fresh.append(v)

    for c in custom_cov:
        evaluations += c.get("evaluations", 0)
        hashes |= set(c.get("hashes", []))
        for k, v in c.get("tags", {}).items():
            tags[k] = tags.get(k, 0) + v
        samples += c.get("samples", [])[:3]
    distinct = len(hashes) + sum(c.get("distinct_nontrivial_extra", 0) for c in custom_cov)

    wall = time.time() - t0
    min_nt = p.get("min_nontrivial", {}).get(tier, 2)
    if scale < 1:
        min_nt = max(2, int(min_nt * scale))  # scaled-down runs (VERIF_SCALE) scale the non-vacuity threshold with them
    status = 0
    for hit, v in known_hits:
        pass
    printed = set()
    for hit, v in known_hits:
        if hit["key"] not in printed:
            print("KNOWN-FINDING: property=%s %s" % (pid, hit["what"]))
            printed.add(hit["key"])
    replay_paths = []
    for v in fresh:
        note = "executor: %s %s\nproperty %s\nkey: %s\n%s" % (v["executor"], v["config"], pid, v["key"], v["message"][:1500])
        path = write_replay(pid, v["case"], note)
        replay_paths.append(path)
        log("---- violation of %s ----\n%s\n---- case (%s) ----\n%s" % (pid, v["message"][:4000], path, v["case"]))
        print("VIOLATION property=%s replay=%s" % (pid, path))
        status = 1
    if status == 0:
        if broken or notes:
            for b in broken + notes:
                log("BROKEN: " + b)
            print("BROKEN property=%s reason=%s" % (pid, (broken + notes)[0].splitlines()[0][:200]))
            status = 2
        elif distinct < min_nt and known_hits:
            # every shard that meets a listed finding stops there (rapidcheck / libFuzzer stop at the first failure);
            # the run is reported as what it is - a run that reached the known finding - not as broken
            log("note: %d distinct non-trivial cases only (minimum %d): shards stopped at the listed finding(s)" % (distinct, min_nt))
        elif distinct < min_nt:
            log("BROKEN: only %d distinct non-trivial cases (minimum %d): generator does not reach the interesting region" % (distinct, min_nt))
            print("BROKEN property=%s reason=too-few-nontrivial (%d<%d)" % (pid, distinct, min_nt))
            status = 2

    # ---- evidence
    ev = dict(
        property_id=pid, tier=tier, seed=seed, level=p.get("level", "exploration"),
        coverage=dict(
            evaluations=int(evaluations), distinct_nontrivial=int(distinct), rule=p["rule"], samples=[s for s in samples[:6]] or ["(no non-trivial sample)"],
            class_counters=dict(sorted(tags.items())), jobs=[per_job[k] for k in sorted(per_job)], custom=[{k: v for k, v in c.items() if k not in ("hashes", "violations", "samples")} for c in custom_cov],
            regression_corpus_cases=corpus_run, exhaustive=bool(p.get("exhaustive", False) and all(c.get("exhaustive", True) for c in custom_cov)),
            known_findings_hit=[h["key"] for h, _ in known_hits], repo=build.REPO, include_tree_hash=build.tree_hash(build.REPO, "include"),
        ),
        assumptions=p.get("assumptions", []), wall_s=round(wall, 2), violations=len(fresh),
    )
    if post_cov:
        ev["coverage"].update(post_cov)
    if p.get("exhaustive_scope"):
        ev["coverage"]["exhaustive_scope"] = p["exhaustive_scope"].get(tier, "")
    if status == 2:
        ev["coverage"]["broken"] = (broken + notes)[:5]
    os.makedirs(EVIDENCE, exist_ok=True)
    with open(os.path.join(EVIDENCE, pid + ".json"), "w") as f:
        json.dump(ev, f, indent=1, sort_keys=False)
        f.write("\n")
    log("[%s %s seed=%d] evaluations=%d distinct_nontrivial=%d violations=%d known=%d wall=%.1fs status=%d" % (pid, tier, seed, evaluations, distinct, len(fresh), len(known_hits), wall, status))
    if status == 0:
        print("OK property=%s tier=%s evaluations=%d distinct_nontrivial=%d" % (pid, tier, evaluations, distinct))
    return status


def _abort_kind(summary):
    s = summary
    if s.startswith("Error: "):
        return "libstdcxx-debug:" + "-".join(s[7:].split()[:6]).rstrip(".,")
    for pat in ("heap-buffer-overflow", "heap-use-after-free", "stack-buffer-overflow", "SEGV", "signed integer overflow", "attempt to", "do not form a heap",
                "runtime error", "LeakSanitizer", "data race", "Assertion"):
        if pat in s:
            return pat.replace(" ", "-")
    return "abnormal-termination"


def _key_from_output(out):
    for l in out.splitlines():
        if l.startswith("key: "):
            return l[5:].strip()
    return "corpus|" + _abort_kind(out)

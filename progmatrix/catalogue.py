"""Catalogue of documented entry points as small, self-contained, runnable C++ snippets.

Written from the Doxygen comments in include/BaseGraph, the README and the examples:
one snippet per documented constructor / method / algorithm / file routine, used as
documented (file routines both with explicit template arguments, as the tests and the
Python bindings call them, and with their default arguments where the documentation
gives defaults).  `req` records what the documentation requires of the label type.
"""

# label kinds: C++ type, expression making a non-default value, capabilities
KINDS = {
    "none": dict(type="BaseGraph::NoLabel", mk="BaseGraph::NoLabel()", eq=True, arith=False, ordered=False, binary=True, labelled=False),
    "int": dict(type="int", mk="7", eq=True, arith=True, ordered=True, binary=True, labelled=True),
    "unsigned": dict(type="unsigned", mk="7u", eq=True, arith=True, ordered=True, binary=True, labelled=True),
    "double": dict(type="double", mk="2.5", eq=True, arith=True, ordered=True, binary=True, labelled=True),
    "char": dict(type="char", mk="'x'", eq=True, arith=True, ordered=True, binary=True, labelled=True),
    "string": dict(type="std::string", mk='std::string("a b")', eq=True, arith=False, ordered=True, binary=False, labelled=True, braced='"abc"'),
    "tag": dict(type="verifprog::TagEq", mk='verifprog::TagEq{3, "t"}', eq=True, arith=False, ordered=False, binary=False, labelled=True, braced='{3, "t"}'),
    "empty": dict(type="verifprog::EmptyEq", mk="verifprog::EmptyEq()", eq=True, arith=False, ordered=False, binary=True, labelled=True),
    # widths other than 1, 2, 4, 8 bytes through the binary routines with their default arguments
    "ldouble": dict(type="long double", mk="2.5L", eq=True, arith=False, ordered=True, binary=True, labelled=True),
    "tri": dict(type="verifprog::Tri", mk="verifprog::Tri{1.f, 2.f, 3.f}", eq=False, arith=False, ordered=False, binary=True, labelled=True, braced="{1.f, 2.f, 3.f}"),
    "plain": dict(type="verifprog::Plain", mk="verifprog::Plain{3, 0.5}", eq=False, arith=False, ordered=False, binary=True, labelled=True, braced="{3, 0.5}"),
}

HEADERS = [
    "BaseGraph/types.h", "BaseGraph/boost_hash.hpp", "BaseGraph/directed_graph.hpp", "BaseGraph/undirected_graph.hpp",
    "BaseGraph/directed_multigraph.hpp", "BaseGraph/undirected_multigraph.hpp", "BaseGraph/directed_weighted_graph.hpp",
    "BaseGraph/undirected_weighted_graph.hpp", "BaseGraph/fileio.hpp", "BaseGraph/algorithms/paths.hpp", "BaseGraph/algorithms/topology.hpp",
]

PRELUDE = r'''
#include <cstdlib>
#include <deque>
#include <forward_list>
#include <functional>
#include <list>
#include <set>
#include <sstream>
#include <string>
#include <unordered_set>
#include <vector>
namespace verifprog {
struct TagEq { int a = 0; std::string b; bool operator==(const TagEq &o) const { return a == o.a && b == o.b; } };
struct Plain { int a; double b; };
struct Tri { float x, y, z; };
struct EmptyEq { bool operator==(const EmptyEq &) const { return true; } };
inline std::string tmp(const char *name) {
    const char *d = std::getenv("VERIF_SCRATCH");
    return std::string(d && *d ? d : "/tmp") + "/prog_" + name;
}
}
'''

# (id, scope, req, code).  scope: D directed labelled class, U undirected labelled class, DU both,
# DM/UM/DW/UW the fixed classes, X no graph class.  In the code: G graph type, L label type, LAB a label value.
S = []


def s(sid, scope, code, **req):
    S.append(dict(id=sid, scope=scope, code=code.strip("\n"), req=req))


# ------------------------------------------------------------------ labelled / unlabelled directed and undirected
s("ctor_size", "DU", "G g(3); G h; (void)g.getSize(); (void)h.getSize();")
s("ctor_edges_list", "DU", "std::list<BaseGraph::Edge> es = {{0, 2}, {0, 1}, {0, 0}, {5, 10}}; G g(es); (void)g;", unlabelled=True)
s("ctor_edges_vector", "DU", "std::vector<BaseGraph::Edge> es = {{0, 2}, {0, 1}}; G g(es); (void)g;", unlabelled=True)
s("ctor_edges_deque_set", "DU", "std::deque<BaseGraph::Edge> a = {{0, 2}}; std::set<BaseGraph::Edge> b = {{1, 2}}; std::forward_list<BaseGraph::Edge> c = {{3, 2}}; G g(a), h(b), k(c); (void)g; (void)h; (void)k;", unlabelled=True)
s("ctor_labeled_list", "DU", "std::list<BaseGraph::LabeledEdge<L>> es = {{0, 2, LAB}, {0, 1, L()}, {5, 10, LAB}}; G g(es); (void)g;", labelled=True)
s("ctor_labeled_vector_deque", "DU", "std::vector<BaseGraph::LabeledEdge<L>> a = {{0, 2, LAB}}; std::deque<BaseGraph::LabeledEdge<L>> b = {{1, 2, LAB}}; std::forward_list<BaseGraph::LabeledEdge<L>> c = {{1, 3, LAB}}; G g(a), h(b), k(c); (void)g; (void)h; (void)k;", labelled=True)
# class template argument deduction, exactly as the Doxygen comment of the constructor writes it (C++17 and later)
s("ctor_labeled_ctad", "D", "std::list<BaseGraph::LabeledEdge<L>> labeledEdges = {{0, 2, LAB}, {0, 1, LAB}, {0, 0, LAB}, {5, 10, LAB}}; BaseGraph::LabeledDirectedGraph graph(labeledEdges); (void)graph.getSize();", labelled=True, cxx17=True)
s("ctor_labeled_ctad", "U", "std::list<BaseGraph::LabeledEdge<L>> labeledEdges = {{0, 2, LAB}, {0, 1, LAB}, {0, 0, LAB}, {5, 10, LAB}}; BaseGraph::LabeledUndirectedGraph graph(labeledEdges); (void)graph.getSize();", labelled=True, cxx17=True)
s("ctor_labeled_set", "DU", "std::set<BaseGraph::LabeledEdge<L>> a = {{0, 2, LAB}}; G g(a); (void)g;", labelled=True, ordered=True)
s("size_resize_count", "DU", "G g(2); g.resize(5); (void)g.getSize(); (void)g.getEdgeNumber();")
s("equality", "DU", "G g(2), h(2); g.addEdge(0, 1, LAB); bool a = g == h, b = g != h; (void)a; (void)b;", eq=True)
s("addEdge_label", "DU", "G g(3); g.addEdge(0, 1, LAB); g.addEdge(0, 1, LAB, true); g.addEdge(1, 2, L(), false);")
# the label written in place, as examples/edgelabeled_directedgraph.cpp does: graph.addEdge(0, 1, {"Company A", 10.});
s("addEdge_braced", "DU", "G g(5); g.addEdge(0, 1, BRACED); g.addEdge(4, 3, BRACED, true); g.setEdgeLabel(0, 1, BRACED); g.setEdgeLabel(4, 3, BRACED, true); L a = g.getEdgeLabel(0, 1); (void)a;", braced=True)
s("addReciprocalEdge_braced", "D", "G g(5); g.addReciprocalEdge(0, 1, BRACED); g.addReciprocalEdge(2, 3, BRACED, true);", braced=True)
s("hasEdge_braced", "DU", "G g(5); g.addEdge(0, 1, BRACED); bool a = g.hasEdge(0, 1, BRACED); (void)a;", braced=True, eq=True)
s("readme_example", "DU", "G graph(std::list<BaseGraph::Edge>{{0, 1}, {0, 3}, {1, 0}}); for (auto vertex : graph) (void)vertex; for (const auto &edge : graph.edges()) { (void)edge.first; (void)edge.second; } for (auto neighbour : graph.getOutNeighbours(0)) (void)neighbour;", unlabelled=True)
s("addEdge_default", "DU", "G g(3); g.addEdge(0, 1); g.addEdge(0, 1, true); g.addEdge(1, 1, false);")
s("addReciprocalEdge", "D", "G g(3); g.addReciprocalEdge(0, 1, LAB); g.addReciprocalEdge(0, 1, LAB, true); g.addReciprocalEdge(1, 2); g.addReciprocalEdge(1, 2, true);")
s("hasEdge", "DU", "G g(3); g.addEdge(0, 1, LAB); bool a = g.hasEdge(0, 1); (void)a;")
s("hasEdge_label", "DU", "G g(3); g.addEdge(0, 1, LAB); bool a = g.hasEdge(0, 1, LAB); (void)a;", eq=True)
s("getOutNeighbours", "DU", "G g(3); g.addEdge(0, 1, LAB); for (BaseGraph::VertexIndex v : g.getOutNeighbours(0)) (void)v; const BaseGraph::Successors &r = g.getOutNeighbours(1); (void)r;")
s("getNeighbours", "U", "G g(3); g.addEdge(0, 1, LAB); for (auto v : g.getNeighbours(0)) (void)v;")
s("removeEdge", "DU", "G g(3); g.addEdge(0, 1, LAB); g.removeEdge(0, 1); g.removeEdge(1, 2);")
s("getEdgeLabel", "DU", "G g(3); g.addEdge(0, 1, LAB); L a = g.getEdgeLabel(0, 1); L b = g.getEdgeLabel(1, 2, false); (void)a; (void)b; try { (void)g.getEdgeLabel(2, 2, true); } catch (const std::invalid_argument &) {}")
s("setEdgeLabel", "DU", "G g(3); g.addEdge(0, 1, L()); g.setEdgeLabel(0, 1, LAB); g.setEdgeLabel(0, 1, LAB, false); g.setEdgeLabel(0, 1, LAB, true); try { g.setEdgeLabel(1, 2, LAB); } catch (const std::invalid_argument &) {}")
s("getReversedGraph", "D", "G g(3); g.addEdge(0, 1, LAB); G r = g.getReversedGraph(); (void)r;")
s("getDirectedGraph", "U", "G g(3); g.addEdge(0, 1, LAB); g.addEdge(2, 2, LAB); auto d = g.getDirectedGraph(); (void)d.getSize();")
s("undirected_from_directed", "U", "DIRECTED d(3); d.addEdge(0, 1, LAB); d.addEdge(2, 1, LAB); G g(d); (void)g;")
s("removeDuplicateEdges", "DU", "G g(3); g.addEdge(0, 1, LAB, true); g.addEdge(0, 1, LAB, true); g.removeDuplicateEdges();")
s("removeSelfLoops", "DU", "G g(3); g.addEdge(1, 1, LAB); g.removeSelfLoops();")
s("removeVertexFromEdgeList", "DU", "G g(3); g.addEdge(0, 1, LAB); g.addEdge(1, 2, LAB); g.removeVertexFromEdgeList(1);")
s("clearEdges", "DU", "G g(3); g.addEdge(0, 1, LAB); g.clearEdges();")
s("degrees_directed", "D", "G g(3); g.addEdge(0, 1, LAB); (void)g.getInDegree(1); (void)g.getOutDegree(0); std::vector<size_t> a = g.getInDegrees(), b = g.getOutDegrees(); (void)a; (void)b;")
s("degrees_undirected", "U", "G g(3); g.addEdge(0, 1, LAB); g.addEdge(2, 2, LAB); (void)g.getDegree(2); (void)g.getDegree(2, false); std::vector<size_t> a = g.getDegrees(), b = g.getDegrees(false); (void)a; (void)b;")
s("adjacency_matrix", "DU", "G g(3); g.addEdge(0, 1, LAB); BaseGraph::AdjacencyMatrix m = g.getAdjacencyMatrix(); (void)m;")
s("adjacency_matrix_flag", "U", "G g(3); g.addEdge(1, 1, LAB); BaseGraph::AdjacencyMatrix m = g.getAdjacencyMatrix(false); (void)m;")
s("stream_output", "DU", "G g(3); g.addEdge(0, 1, LAB); std::ostringstream os; os << g; (void)os.str();")
s("vertex_iteration", "DU", "G g(3); for (BaseGraph::VertexIndex v : g) (void)v; for (auto it = g.begin(); it != g.end(); ++it) (void)*it;")
s("edge_iteration", "DU", "G g(3); g.addEdge(0, 1, LAB); for (auto e : g.edges()) { (void)e.first; (void)e.second; } G z(0); for (auto e : z.edges()) (void)e;")
s("assertVertexInRange", "DU", "G g(3); g.assertVertexInRange(2); try { g.assertVertexInRange(3); } catch (const std::out_of_range &) {}")
s("copy_assign", "DU", "G g(3); g.addEdge(0, 1, LAB); G c(g); G d; d = g; (void)c; (void)d;")
# ------------------------------------------------------------------ algorithms on labelled / unlabelled graphs
s("getSubgraph", "DU", "G g(4); g.addEdge(0, 1, LAB); g.addEdge(1, 3, LAB); std::unordered_set<BaseGraph::VertexIndex> vs = {0, 1}; G sub = BaseGraph::algorithms::getSubgraph(g, vs); (void)sub;")
s("getSubgraphWithRemap", "DU", "G g(4); g.addEdge(0, 1, LAB); std::unordered_set<BaseGraph::VertexIndex> vs = {0, 1}; auto pr = BaseGraph::algorithms::getSubgraphWithRemap(g, vs); (void)pr.first; (void)pr.second;")
s("findVertexPredecessors", "DU", "G g(4); g.addEdge(0, 1, LAB); g.addEdge(1, 2, LAB); BaseGraph::algorithms::Predecessors p = BaseGraph::algorithms::findVertexPredecessors(g, 0); (void)p;")
s("findAllVertexPredecessors", "DU", "G g(4); g.addEdge(0, 1, LAB); g.addEdge(1, 2, LAB); BaseGraph::algorithms::MultiplePredecessors p = BaseGraph::algorithms::findAllVertexPredecessors(g, 0); (void)p;")
s("findGeodesics", "DU", "G g(4); g.addEdge(0, 1, LAB); g.addEdge(1, 2, LAB); BaseGraph::algorithms::Path p = BaseGraph::algorithms::findGeodesics(g, 0, 2); BaseGraph::algorithms::MultiplePaths q = BaseGraph::algorithms::findAllGeodesics(g, 0, 2); (void)p; (void)q;")
s("findGeodesicsFromVertex", "DU", "G g(4); g.addEdge(0, 1, LAB); std::vector<BaseGraph::algorithms::Path> p = BaseGraph::algorithms::findGeodesicsFromVertex(g, 0); std::vector<BaseGraph::algorithms::MultiplePaths> q = BaseGraph::algorithms::findAllGeodesicsFromVertex(g, 0); (void)p; (void)q;")
s("paths_from_predecessors", "DU", "G g(4); g.addEdge(0, 1, LAB); g.addEdge(1, 2, LAB); auto p = BaseGraph::algorithms::findVertexPredecessors(g, 0); auto a = BaseGraph::algorithms::findPathToVertexFromPredecessors(g, 0, 2, p); auto b = BaseGraph::algorithms::findPathToVertexFromPredecessors(g, 2, p); auto mp = BaseGraph::algorithms::findAllVertexPredecessors(g, 0); auto c = BaseGraph::algorithms::findMultiplePathsToVertexFromPredecessors(g, 0, 2, mp); auto d = BaseGraph::algorithms::findMultiplePathsToVertexFromPredecessors(g, 2, mp); (void)a; (void)b; (void)c; (void)d;")
# ------------------------------------------------------------------ file routines
s("writeText_default", "DU", 'G g(3); g.addEdge(0, 1, LAB); BaseGraph::io::writeTextEdgeList(g, verifprog::tmp("a.txt"));', tostring_default=True)
s("writeText_explicit", "DU", 'G g(3); g.addEdge(0, 1, LAB); BaseGraph::io::writeTextEdgeList<GT, L>(g, verifprog::tmp("b.txt"), [](const L &) { return std::string("x"); });', labelled=True)
s("loadText_default", "DU", 'G g(3); g.addEdge(0, 1, LAB); BaseGraph::io::writeTextEdgeList<GT, L>(g, verifprog::tmp("c.txt"), [](const L &) { return std::string("x"); }); auto pr = BaseGraph::io::loadTextEdgeList<GT, L>(verifprog::tmp("c.txt")); (void)pr.first; (void)pr.second;', labelled=True)
s("loadText_unlabelled", "DU", 'G g(3); g.addEdge(0, 1); BaseGraph::io::writeTextEdgeList(g, verifprog::tmp("d.txt")); auto pr = BaseGraph::io::loadTextEdgeList<GT, L>(verifprog::tmp("d.txt")); (void)pr.first;', unlabelled=True)
s("loadText_explicit", "DU", 'G g(3); g.addEdge(0, 1, LAB); BaseGraph::io::writeTextEdgeList<GT, L>(g, verifprog::tmp("e.txt"), [](const L &) { return std::string("x"); }); auto pr = BaseGraph::io::loadTextEdgeList<GT, L>(verifprog::tmp("e.txt"), [](const std::string &) { return L(); }); (void)pr.first;', labelled=True)
s("loadTextVertexLabeled", "DU", 'G g(3); g.addEdge(0, 1, LAB); BaseGraph::io::writeTextEdgeList<GT, L>(g, verifprog::tmp("f.txt"), [](const L &) { return std::string("x"); }); auto a = BaseGraph::io::loadTextVertexLabeledEdgeList<GT, L>(verifprog::tmp("f.txt")); auto b = BaseGraph::io::loadTextVertexLabeledEdgeList<GT, L>(verifprog::tmp("f.txt"), [](const std::string &) { return L(); }); auto c = BaseGraph::io::loadTextVertexLabeledEdgeList<GT, L>(verifprog::tmp("f.txt"), [](const std::string &) { return L(); }, BaseGraph::io::VertexCountMapper()); (void)a; (void)b; (void)c;', labelled=True)
s("binary_default", "DU", 'G g(3); g.addEdge(0, 1, LAB); BaseGraph::io::writeBinaryEdgeList(g, verifprog::tmp("g.bin")); G h = BaseGraph::io::loadBinaryEdgeList<GT, L>(verifprog::tmp("g.bin")); (void)h;', binary=True)
s("binary_explicit", "DU", 'G g(3); g.addEdge(0, 1, LAB); BaseGraph::io::writeBinaryEdgeList<GT, L>(g, verifprog::tmp("h.bin"), [](std::ofstream &f, L v) { BaseGraph::io::writeBinaryValue(f, v); }); G h = BaseGraph::io::loadBinaryEdgeList<GT, L>(verifprog::tmp("h.bin"), [](std::ifstream &f, L &v) -> std::ifstream & { return BaseGraph::io::readBinaryValue(f, v); }); (void)h;', binary=True, labelled=True)
s("unopenable_file", "DU", 'try { (void)BaseGraph::io::loadTextEdgeList<GT, L>("/nonexistent_dir_verif/x"); } catch (const std::runtime_error &) {}')
# ------------------------------------------------------------------ multigraphs
for cls, d in (("DM", True), ("UM", False)):
    s("m_ctor_size", cls, "G g(3); G h; (void)g.getSize(); (void)h.getSize();")
    s("m_ctor_list", cls, "std::list<BaseGraph::LabeledEdge<BaseGraph::EdgeMultiplicity>> es = {{0, 2, 1}, {0, 1, 4}, {0, 0, 1}, {5, 10, 2}}; G g(es); (void)g;")
    s("m_ctor_vector", cls, "std::vector<BaseGraph::LabeledEdge<BaseGraph::EdgeMultiplicity>> es = {{0, 2, 1}, {0, 2, 4}}; std::deque<BaseGraph::LabeledEdge<BaseGraph::EdgeMultiplicity>> e2 = {{0, 1, 1}}; G g(es), h(e2); (void)g; (void)h;")
    s("m_add", cls, "G g(3); g.addEdge(0, 1); g.addEdge(0, 1, true); g.addMultiedge(1, 2, 3); g.addMultiedge(1, 2, 3, true);")
    s("m_remove", cls, "G g(3); g.addMultiedge(1, 2, 3); g.removeEdge(1, 2); g.removeMultiedge(1, 2, 5);")
    s("m_multiplicity", cls, "G g(3); g.addMultiedge(1, 2, 3); BaseGraph::EdgeMultiplicity m = g.getEdgeMultiplicity(1, 2); g.setEdgeMultiplicity(1, 2, 0); g.setEdgeMultiplicity(0, 2, 4); (void)m; (void)g.hasEdge(0, 2);")
    s("m_counts", cls, "G g(3); g.addMultiedge(1, 2, 3); (void)g.getEdgeNumber(); (void)g.getTotalEdgeNumber(); (void)g.getSize(); g.resize(4);")
    s("m_bulk", cls, "G g(3); g.addMultiedge(1, 1, 3, true); g.addMultiedge(1, 1, 3, true); g.removeDuplicateEdges(); g.removeSelfLoops(); g.addEdge(0, 1); g.removeVertexFromEdgeList(1); g.clearEdges();")
    s("m_equality_copy", cls, "G g(3), h(3); g.addEdge(0, 1); bool a = g == h, b = g != h; G c(g); h = g; (void)a; (void)b; (void)c;")
    s("m_matrix_stream", cls, "G g(3); g.addMultiedge(1, 2, 3); BaseGraph::AdjacencyMatrix m = g.getAdjacencyMatrix(); std::ostringstream os; os << g; (void)m; (void)g.asLabeledGraph().getSize();")
    s("m_iteration", cls, "G g(3); g.addEdge(0, 1); for (auto v : g) (void)v; for (auto e : g.edges()) (void)e; for (auto v : g.getOutNeighbours(0)) (void)v;")
    if d:
        s("m_reciprocal", cls, "G g(3); g.addReciprocalEdge(0, 1); g.addReciprocalEdge(0, 1, true); g.addReciprocalMultiedge(1, 2, 2); g.addReciprocalMultiedge(1, 2, 2, true);")
        s("m_degrees", cls, "G g(3); g.addMultiedge(1, 2, 3); (void)g.getOutDegree(1); (void)g.getInDegree(2); auto a = g.getOutDegrees(); auto b = g.getInDegrees(); (void)a; (void)b;")
    else:
        s("m_degrees", cls, "G g(3); g.addMultiedge(1, 1, 3); (void)g.getDegree(1); (void)g.getDegree(1, false); auto a = g.getDegrees(); auto b = g.getDegrees(false); auto m = g.getAdjacencyMatrix(false); (void)a; (void)b; (void)m;")
# ------------------------------------------------------------------ weighted graphs
for cls, d in (("DW", True), ("UW", False)):
    s("w_ctor_size", cls, "G g(3); G h; (void)g.getSize(); (void)h.getSize();")
    s("w_ctor_list", cls, "std::list<BaseGraph::LabeledEdge<BaseGraph::EdgeWeight>> edges = {{0, 2, 0.5}, {0, 1, -2}, {0, 10, 10.1}, {5, 0, 0}}; G g(edges); (void)g;")
    s("w_ctor_vector", cls, "std::vector<BaseGraph::LabeledEdge<BaseGraph::EdgeWeight>> a = {{0, 2, 0.5}}; std::deque<BaseGraph::LabeledEdge<BaseGraph::EdgeWeight>> b = {{0, 1, 1.5}}; G g(a), h(b); (void)g; (void)h;")
    s("w_add_remove", cls, "G g(3); g.addEdge(0, 1, 0.5); g.addEdge(0, 1, 0.5, true); g.removeEdge(0, 1); (void)g.hasEdge(0, 1);")
    s("w_weights", cls, "G g(3); g.addEdge(0, 1, 0.5); BaseGraph::EdgeWeight w = g.getEdgeWeight(0, 1); BaseGraph::EdgeWeight z = g.getEdgeWeight(1, 2, false); g.setEdgeWeight(0, 1, 2.0); g.setEdgeWeight(1, 2, 2.0); auto t = g.getTotalWeight(); (void)w; (void)z; (void)t;")
    s("w_bulk", cls, "G g(3); g.addEdge(1, 1, 0.5, true); g.addEdge(1, 1, 0.5, true); g.removeDuplicateEdges(); g.removeSelfLoops(); g.addEdge(0, 1, 1.0); g.removeVertexFromEdgeList(1); g.clearEdges(); g.resize(5);")
    s("w_equality_copy", cls, "G g(3), h(3); g.addEdge(0, 1, 1.0); bool a = g == h, b = g != h; G c(g); h = g; (void)a; (void)b; (void)c;")
    s("w_matrices_stream", cls, "G g(3); g.addEdge(0, 1, 1.0); BaseGraph::WeightMatrix wm = g.getWeightMatrix(); BaseGraph::AdjacencyMatrix am = g.getAdjacencyMatrix(); std::ostringstream os; os << g; (void)wm; (void)am; (void)g.asLabeledGraph().getSize(); (void)g.getEdgeNumber();")
    s("w_iteration", cls, "G g(3); g.addEdge(0, 1, 1.0); for (auto v : g) (void)v; for (auto e : g.edges()) (void)e; for (auto v : g.getOutNeighbours(0)) (void)v;")
    s("w_dijkstra", cls, "G g(3); g.addEdge(0, 1, 1.0); g.addEdge(1, 2, 0.0); auto r = BaseGraph::algorithms::findGeodesicsDijkstra(g, 0); (void)r.first; (void)r.second;")
    if d:
        s("w_degrees", cls, "G g(3); g.addEdge(0, 1, 1.0); (void)g.getInDegree(1); (void)g.getOutDegree(0); auto a = g.getInDegrees(); auto b = g.getOutDegrees(); (void)a; (void)b; g.addReciprocalEdge(1, 2);")
    else:
        s("w_degrees", cls, "G g(3); g.addEdge(1, 1, 1.0); (void)g.getDegree(1); (void)g.getDegree(1, false); auto a = g.getDegrees(); auto b = g.getDegrees(false); auto m = g.getAdjacencyMatrix(false); (void)a; (void)b; (void)m;")

FIXED = {"DM": "BaseGraph::DirectedMultigraph", "UM": "BaseGraph::UndirectedMultigraph", "DW": "BaseGraph::DirectedWeightedGraph", "UW": "BaseGraph::UndirectedWeightedGraph"}


def applicable(sn, kind, std=None):
    k = KINDS[kind]
    r = sn["req"]
    if r.get("cxx17") and std == "c++14":
        return False
    if sn["scope"] in FIXED:
        return kind == "none"  # label-independent: instantiated once, in the NoLabel bundle
    if r.get("unlabelled") and k["labelled"]:
        return False
    if r.get("labelled") and not k["labelled"]:
        return False
    if r.get("eq") and not k["eq"]:
        return False
    if r.get("ordered") and not k["ordered"]:
        return False
    if r.get("binary") and not k["binary"]:
        return False
    if r.get("tostring_default") and not (k["arith"] or not k["labelled"]):
        return False
    if r.get("braced") and not k.get("braced"):
        return False
    return True


def instances(kind, std=None):
    """(cell id, function body) for every applicable snippet x class of the label kind (and language standard)"""
    k = KINDS[kind]
    out = []
    for sn in S:
        if not applicable(sn, kind, std):
            continue
        scopes = []
        if sn["scope"] in FIXED:
            scopes = [sn["scope"]]
        else:
            if "D" in sn["scope"]:
                scopes.append("D")
            if "U" in sn["scope"]:
                scopes.append("U")
        for sc in scopes:
            if sc in FIXED:
                g, gt = FIXED[sc], ""
                pre = "typedef %s G;" % g
            else:
                tmpl = "BaseGraph::LabeledDirectedGraph" if sc == "D" else "BaseGraph::LabeledUndirectedGraph"
                pre = "typedef %s L; typedef %s<L> G; typedef BaseGraph::LabeledDirectedGraph<L> DIRECTED; const L LAB = %s; (void)LAB;" % (k["type"], tmpl, k["mk"])
                pre += " (void)sizeof(DIRECTED);"
                gt = tmpl
            body = pre + "\n    " + sn["code"].replace("GT", gt).replace("BRACED", k.get("braced", ""))
            out.append(("%s.%s.%s" % (sn["id"], sc, kind), body))
    return out

#!/bin/sh
# Builds the front-ends and warms the object cache for the current /repo tree.
# Offline: uses only the compilers and librapidcheck present in the image.
set -e
cd "$(dirname "$0")"
mkdir -p build evidence
python3 check.py --build-all

#!/usr/bin/env python3
"""For every seeded/<id>: build demo.cpp against the patched tree (must exit non-zero) and against /repo (must exit 0).
Records the outcome in meta.json under "demo"."""
import glob, json, os, shutil, subprocess, sys, tempfile
root = os.path.dirname(os.path.dirname(os.path.abspath(__file__)))
only = sys.argv[1:]
def sh(cmd, **kw):
    return subprocess.run(cmd, capture_output=True, text=True, **kw)
for d in sorted(glob.glob(os.path.join(root, "seeded", "*"))):
    sid = os.path.basename(d)
    if only and sid not in only:
        continue
    demo = os.path.join(d, "demo.cpp")
    if not os.path.exists(demo):
        continue
    flags = ["-std=c++17", "-O1"]
    fl = os.path.join(d, "demo_flags.txt")
    if os.path.exists(fl):
        flags += open(fl).read().split()
    wt = tempfile.mkdtemp(prefix="bg_demo_", dir="/tmp"); os.rmdir(wt)
    sh(["git", "-C", "/repo", "worktree", "add", "--detach", wt, "HEAD"])
    out = {}
    try:
        r = sh(["git", "-C", wt, "apply", "--whitespace=nowarn", os.path.join(d, "patch.diff")])
        if r.returncode != 0:
            out["error"] = "patch does not apply"
        else:
            for name, inc in (("with_patch", wt + "/include"), ("without_patch", "/repo/include")):
                exe = os.path.join(wt, "demo_" + name)
                c = sh(["g++"] + flags + ["-I", inc, demo, "-o", exe, "-pthread"])
                if c.returncode != 0:
                    out[name] = "compile failed: " + c.stderr[-300:]
                    continue
                try:
                    rr = sh([exe], timeout=600, cwd=wt)
                    out[name] = rr.returncode
                except subprocess.TimeoutExpired:
                    out[name] = "timeout"
    finally:
        sh(["git", "-C", "/repo", "worktree", "remove", "--force", wt]); shutil.rmtree(wt, ignore_errors=True); sh(["git", "-C", "/repo", "worktree", "prune"])
    ok = out.get("with_patch") not in (0, None) and not str(out.get("with_patch")).startswith("compile") and out.get("without_patch") == 0
    if sid.startswith("C20") and str(out.get("with_patch")).startswith("compile") and out.get("without_patch") == 0:
        ok = True  # C20 is about client code compiling: the demonstration not compiling with the patch is the violation
        out["note"] = "the demonstration does not compile with the patch (that is the violation of C20) and compiles and exits 0 without it"
    out["confirmed"] = bool(ok)
    mp = os.path.join(d, "meta.json")
    if os.path.exists(mp):
        m = json.load(open(mp)); m["demo"] = out; json.dump(m, open(mp, "w"), indent=1)
    print(sid, out)

#!/usr/bin/env python3
"""Rewrites the numbers of the table in section 8 of DESIGN.md (quick-tier column) from evidence/*.json."""
import json, os, re
ROOT = os.path.dirname(os.path.dirname(os.path.abspath(__file__)))
p = os.path.join(ROOT, 'DESIGN.md')
s = open(p).read()
def fmt(n):
    return "{:,}".format(n).replace(",", " ")
out = []
seeds = set()
for line in s.splitlines():
    m = re.match(r'^\| (C\d\d) \|', line)
    if m and line.count('|') >= 7:
        pid = m.group(1)
        ev = os.path.join(ROOT, 'evidence', pid + '.json')
        if os.path.exists(ev):
            e = json.load(open(ev))
            if e.get('tier') == 'quick':
                seeds.add(e.get('seed'))
                cells = line.split('|')
                cov = e['coverage']
                cells[5] = " %s / %s / %d s " % (fmt(cov['evaluations']), fmt(cov['distinct_nontrivial']), round(e.get('wall_s', 0)))
                line = '|'.join(cells)
    out.append(line)
s2 = "\n".join(out) + "\n"
s2 = re.sub(r'cores, VERIF_SEED=\d+;', 'cores, VERIF_SEED=%s;' % ",".join(str(x) for x in sorted(seeds)), s2)
open(p, 'w').write(s2)
print("section 8 numbers refreshed for seeds", sorted(seeds))

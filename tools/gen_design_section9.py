#!/usr/bin/env python3
"""Regenerates section 9 of DESIGN.md (sensitivity results) from seeded/*/meta.json and the tables below."""
import glob
import json
import os

ROOT = os.path.dirname(os.path.dirname(os.path.abspath(__file__)))

SHORT = {
    'C01-agent1': 'addReciprocalEdge decides both orientations from one existence lookup (one orientation already present)',
    'C01-agent2': 'removeVertexFromEdgeList returns early for a vertex without out-edges (in-edges of a pure sink stay)',
    'C01-agent3': 'removeSelfLoops stops scanning when the summed out-degrees reach the (shrinking) edge count (>= 2 loops, sparse tail)',
    'C02-agent1': 'early exit in undirected removeVertexFromEdgeList with bound `i >= vertex` (vertex with only lower neighbours / self-loop)',
    'C02-agent2': 'undirected removeEdge normalises only the first list (removal named larger-first leaves a stale half-edge)',
    'C02-agent3': 'base-class clearEdges stops when the summed list sizes reach the edge count (undirected: half of the lists survive)',
    'C03-agent1': 'undirected removeVertexFromEdgeList leaves the label of a self-loop behind',
    'C03-agent2': 'undirected hasEdge(i,j,label) drops the existence test (true for an absent pair and the default label)',
    'C03-agent3': 'label storage dispatched on std::is_empty instead of is_same<NoLabel>: an empty-class label never throws for absent edges',
    'C04-agent1': 'multigraph add/remove decide existence from the label map; removing an absent pair leaves a phantom 0 entry, a later add only bumps it',
    'C04-agent2': 'UndirectedMultigraph::removeAllEdges normalises only one side (setEdgeMultiplicity(hi,lo,0))',
    'C04-agent3': 'UndirectedMultigraph::getDegree computes 2*multiplicity in 32 bits again (self-loop of multiplicity >= 2^31)',
    'C05-agent1': 'UndirectedWeightedGraph::setEdgeWeight treats current weight 0 as "no edge"',
    'C05-agent2': 'DirectedWeightedGraph::removeVertexFromEdgeList keeps the weights of the out-edges',
    'C05-agent3': 'UndirectedWeightedGraph::removeEdge snaps a total below DBL_EPSILON to 0 (weights around 2^-60)',
    'C06-agent1': 'DirectedWeightedGraph::operator== short-circuits on the cached total weight (accumulation order)',
    'C06-agent2': 'UndirectedMultigraph::removeMultiedge on an absent pair inserts a zero entry in the label map (== sees it)',
    'C06-agent3': 'UndirectedGraph::operator== compares only pairs i<j: a self-loop moved to another vertex goes unnoticed',
    'C07-agent1': 'DirectedWeightedGraph::setEdgeWeight touches the label map before the range check (phantom weight for an invalid pair)',
    'C07-agent2': 'undirected getDegree(v,false) loses its range check (only the fast path)',
    'C07-agent3': 'UndirectedMultigraph::addMultiedge returns on multiplicity 0 before checking the indices',
    'C08-agent1': 'undirected Edges::begin() never examines the last vertex (graph whose only edges are loops on it)',
    'C08-agent2': 'directed edge iterator it++ stops on a vertex without out-edges in the middle',
    'C08-agent3': 'getReversedGraph built through the edge-list constructor: trailing isolated vertices are dropped',
    'C09-agent1': 'labelled edge-list constructor inserts with force and de-duplicates afterwards (last label wins on repeated pairs)',
    'C09-agent2': 'undirected-from-directed constructor looks the label up under the ordered pair (edge stored only high->low)',
    'C09-agent3': 'getDirectedGraph mirrors labels while iterating the unordered_map it inserts into (rehash: dense graphs lose labels)',
    'C10-agent1': '[min,max] window pre-filter with `break` in getSubgraph / WithRemap (unsorted neighbour lists)',
    'C10-agent2': 'undirected removeEdge leaves a stale half-edge; getSubgraph resurrects it (needs a graph with removal history)',
    'C10-agent3': 'thread_local membership mask left dirty when an extraction throws: the next extraction sees stale members',
    'C11-agent1': 'BFS stops once every vertex is discovered (all-predecessor lists lose parents still in the queue)',
    'C11-agent2': 'findGeodesics returns "unreachable" when the destination has no out-edges (directed sinks)',
    'C11-agent3': 'all-predecessor BFS drops its duplicate-parent test (repeated paths on graphs whose lists hold duplicates)',
    'C12-agent1': 'lazy-deletion Dijkstra + push_heap (wrong distances from 4 vertices / 3 weights up)',
    'C12-agent2': 'equal-length tie-break rewrites predecessors (pred[source] != source, predecessor cycles over zero-weight edges)',
    'C12-agent3': 'relaxation ignores improvements <= DBL_EPSILON as an absolute tolerance (weights around 2^-60)',
    'C13-agent1': 'comment test skips leading blanks (indented line whose first name starts with #)',
    'C13-agent2': 'label cut at its first inner blank',
    'C13-agent3': 'line loop tests getline().good(): a last line without newline is dropped',
    'C14-agent1': 'end-of-file test stores peek() in a char: a record starting with byte 0xFF ends the load',
    'C14-agent2': 'loader compares both endpoints against a stale size (record with two new endpoints, source > destination)',
    'C14-agent3': 'endianness flag with inverted polarity: IO during static initialisation (before the flag is initialised) byte-swaps',
    'C15-agent1': 'index tokens parsed with stoul, negative check dropped (first line "-1 ...")',
    'C15-agent2': 'labelled binary loader accepts a record whose label is cut',
    'C15-agent3': 'comment test indexes the line with find_first_not_of(): reads line[npos] on a blank line (1 byte before the buffer)',
    'C16-agent1': 'undirected removeDuplicateEdges also erases the label of the surviving copy',
    'C16-agent2': 'DirectedMultigraph::removeDuplicateEdges sums the removed multiplicities in 32 bits (needs totals >= 2^32)',
    'C16-agent3': 'removeDuplicateEdges bit-mask fast path for <= 64 vertices computes `1u << j` (neighbours alias modulo 32 on 33-64 vertices)',
    'C17-agent1': 'push_heap instead of make_heap in Dijkstra (heap precondition; results stay right)',
    'C17-agent2': 'BFS keeps a reference to queue.front() across pop() (use-after-free from the 128th dequeue)',
    'C17-agent3': 'UndirectedMultigraph::removeVertexFromEdgeList takes its vertex by const reference (use-after-free when the argument aliases a list node)',
    'C18-agent1': 'byte-order flag becomes a lazily initialised function-local static (race on first binary IO)',
    'C18-agent2': 'mutable firstSourceHint written by the const Edges::begin() (race on first edge iteration)',
    'C18-agent3': 'BFS workspace is thread_local but bound through a function-local `static` reference: all threads share the first caller\'s buffers',
    'C19-agent1': 'push_heap instead of make_heap in Dijkstra (scans above V+E+1 on hill-climbed graphs)',
    'C19-agent2': 'all-predecessor BFS re-enqueues single-predecessor vertices (self-loops / odd cycles, scans ~n^2/2)',
    'C19-agent3': 'Dijkstra forms the candidate length in long double but stores double: spurious "improvements" re-push neighbours (non-dyadic weights, wide fan-out)',
    'C20-agent1': 'addEdge becomes a perfect-forwarding template: braced labels as in examples/ stop compiling',
    'C20-agent2': '_isSystemBigEndian loses `inline`: two TUs including fileio.hpp do not link',
    'C20-agent3': 'LabeledEdge alias goes through std::decay: the documented CTAD form `LabeledDirectedGraph graph(labeledEdges)` no longer deduces',
    'C01-agent4': 'addEdge of labelled directed graphs decides "already present" from the label table, and the table is skipped for empty label classes (re-add of a present edge appends a duplicate; label type = empty class other than NoLabel)',
    'C02-agent4': 'undirected removeDuplicateEdges marks seen neighbours with a one-byte stamp per list (wraps at 256 vertices: a duplicate-free graph with >= 256 vertices loses half-edges of vertex 255, 511, ...)',
    'C03-agent4': 'addReciprocalEdge decides from one hasEdge scan and inserts both orientations unchecked (label of the reverse orientation overwritten when only it existed)',
    'C04-agent4': 'DirectedMultigraph::removeVertexFromEdgeList takes a map-walking fast path when the map has fewer than size/64 entries and forgets totalEdgeNumber (>= 128 vertices, few edges)',
    'C05-agent4': 'UndirectedWeightedGraph::getEdgeWeight memoises its last lookup under the pair as passed, mutators invalidate under (min,max) (read (j,i), mutate, read (j,i))',
    'C06-agent4': 'hasEdge of labelled classes answers from the label table when the list has > 64 entries; the undirected operator== calls it with i > j (g == g false on hubs with > 64 neighbours)',
    'C07-agent4': 'resize allocates geometrically and assertVertexInRange checks against the allocated capacity (an index between size and capacity is accepted)',
    'C08-agent4': 'directed Edges::begin() memoises the first vertex with an out-edge, validated only by the edge count (traverse, remove+add, traverse)',
    'C09-agent4': 'getReversedGraph cached; every mutator drops the cache except setEdgeLabel (reverse, relabel, reverse)',
    'C10-agent4': 'undirected addEdge looks in the label table when the smaller endpoint has > 64 neighbours (NoLabel: table empty, so subgraphs of hubs get every edge twice)',
    'C11-agent4': 'BFS visit marks in one per-thread buffer shared by all instantiations, the stamp giving them meaning is per instantiation (searches on two graph classes in one thread)',
    'C12-agent4': 'Dijkstra skips vertices whose 16-bit "expanded in call #" stamp equals the current call id; never cleared, wraps after 65536 calls',
    'C13-agent4': 'VertexCountMapper keeps its name table behind a shared_ptr and the default argument became a namespace-scope prototype (second named load in a process continues the first numbering)',
    'C14-agent4': 'unlabelled binary writer gathers 8192 edges per block and flushes a full block with the edge count instead of the value count (> 8192 edges: half of every full block missing)',
    'C15-agent4': 'undirected addEdge lost its range assertion and the unlabelled binary loader grows the graph from max(index+1) in 32-bit arithmetic (index 0xFFFFFFFF after an ordinary record writes out of bounds)',
    'C16-agent4': 'same fast path as C06-agent4, seen through "deduplicated graph == graph built without force" on undirected labelled hubs',
    'C17-agent4': 'DirectedMultigraph::setEdgeMultiplicity reads the multiplicity through find()->second (forced duplicate, removal leaving one list entry without record, then setEdgeMultiplicity: past-the-end dereference)',
    'C18-agent4': 'UndirectedWeightedGraph::getTotalWeight() const lazily rebuilds the mutable total after 16384 weight updates (first readers after a long update history race)',
    'C19-agent4': 'BFS queue thread_local and reused, findGeodesics returns early leaving the frontier in it (next search starts from stale entries: more scans, wrong distances)',
    'C20-agent4': 'io::swapBytes goes through an unsigned integer of the same width, defined for 1, 2, 4, 8 bytes only (binary routines with default arguments do not compile for other label widths)',
    'C01-agent5': 'directed Edges::begin() returns end() when the last vertex index is 0 (one-vertex graph with its self-loop: in-degrees and matrix empty)',
    'C02-agent5': 'container constructor of LabeledUndirectedGraph inserts with force=true (a pair listed twice is stored twice)',
    'C03-agent5': 'label-less addEdge(i,j) of labelled directed graphs no longer stores the default label (getEdgeLabel throws for an existing edge)',
    'C04-agent5': 'UndirectedMultigraph::setEdgeMultiplicity creates an absent pair by hand: a self-loop lands twice in its own list',
    'C05-agent5': 'container constructor of DirectedWeightedGraph inserts with force=true (repeated pair: duplicate entry, last weight, total too high for good)',
    'C06-agent5': 'container constructor of DirectedMultigraph inserts with force=true (repeated pair not merged: != the graph built by addMultiedge)',
    'C07-agent5': 'getEdgeLabel / getEdgeWeight(i, j, throwIfInexistent=false) return the default before checking the indices',
    'C08-agent5': 'labelled binary writer returns before opening the file when the graph has no edge (no file, or the old content stays)',
    'C09-agent5': 'hand-written copy assignment of UndirectedMultigraph clears first and has no self-assignment guard (g = g empties the graph)',
    'C10-agent5': 'hand-written move operations of the base class forget the label table (getSubgraphWithRemap moves its result: labels lost)',
    'C11-agent5': 'findAllGeodesics takes an "adjacent vertices" shortcut before the source == destination test ([v, v] instead of [v] on a vertex with a self-loop)',
    'C12-agent5': 'UndirectedWeightedGraph::setEdgeWeight on an existing edge keys the table as named (larger endpoint first: stale weight, Dijkstra on the stale graph)',
    'C13-agent5': 'text loader inserts with force=false (a graph with duplicate list entries does not round-trip)',
    'C14-agent5': 'same early return as C08-agent5, seen through file length, round trip and the unopenable-path clause',
    'C15-agent5': 'line tokenizer marked noexcept still calls substr(npos) for one token followed by blanks (std::terminate)',
    'C16-agent5': 'undirected removeEdge converts erased list entries to edges with (entries+1)/2 (k >= 2 forced copies of a self-loop: count too high)',
    'C17-agent5': 'DirectedWeightedGraph::totalWeight initialised only in the size constructor (container constructor: uninitialised read)',
    'C18-agent5': 'writeTextEdgeList writes to <stem>.tmp and renames (writers to distinct files sharing a stem collide; no memory-level race)',
    'C19-agent5': 'Dijkstra relaxes on <= (ties re-push: scans grow with the number of shortest paths, zero-weight cycles never terminate)',
    'C20-agent5': 'operator<< of LabeledDirectedGraph streams the label (a struct label without operator<< no longer compiles)',
    'C01-agent6': 'hasEdge answers true for any two distinct vertices once getEdgeNumber() >= n(n-1) ("complete graph"; self-loops count towards the edge number)',
    'C03-agent6': 'clearEdges of the labelled base stops when its running edge counter reaches zero (undirected: every edge sits in two lists, later lists stay filled, labels gone)',
    'C04-agent6': 'UndirectedMultigraph::removeVertexFromEdgeList returns once the mirrored entries are erased (own row and self-loop of a vertex whose neighbours all have smaller indices stay)',
    'C05-agent6': 'DirectedWeightedGraph::removeSelfLoops sums the removed weights in a float (total off by 6e-8 of the removed weight)',
    'C06-agent6': 'LabeledUndirectedGraph::removeVertexFromEdgeList walks only the neighbours and skips the self-loop entry together with the erase of its label (stale label: == false against an equal graph)',
    'C07-agent6': 'undirected addEdge drops its range checks and relies on at(): addEdge(valid, invalid, force=true) pushes the invalid index before throwing',
    'C08-agent6': 'directed -> undirected conversion guards its forced insertion with the label-aware hasEdge (reciprocal pair with different labels: the pair is stored twice)',
    'C09-agent6': 'DirectedMultigraph container constructor skips entries of multiplicity 0 before sizing the graph (fewer than 1+largest-index vertices)',
    'C10-agent6': 'getSubgraphWithRemap reads newMapping[j] before the membership test and iterates the map it inserts into (extra keys sent to 0; from 14 vertices on edges lost / invented)',
    'C11-agent6': 'path enumerator behind findAllGeodesics throws after more than n^2 back-tracking steps (pairs with more shortest-path suffixes than n^2, from 14 vertices on)',
    'C12-agent6': 'DirectedWeightedGraph container constructor unpacks the weight into an unsigned int (fractional weights truncated before Dijkstra runs)',
    'C13-agent6': 'findEdgeFromString looks for the label at pos4+1 (npos wraps to 0: a line ending right after the second token hands the whole line to the label parser)',
    'C14-agent6': 'labelled writeBinaryEdgeList opens with ios::app (an existing file is not replaced)',
    'C15-agent6': 'binary loaders test end of file through peek() stored in a char (a record starting with byte 0xFF, source vertex 255 / 511, ends the load silently)',
    'C16-agent6': 'UndirectedWeightedGraph::removeDuplicateEdges caches the last weight by neighbour index across vertices (two duplicated pairs sharing the larger endpoint: total weight wrong)',
    'C02-agent6': 'undirected removeSelfLoops returns early when the number of adjacency-list entries is even ("no self-loop": in fact an even number of them)',
    'C17-agent6': 'text loader grows the returned vertex-name vector only by the second column (line "2 0" after "0 1": std::string written past the end)',
    'C18-agent6': 'getSubgraph / getSubgraphWithRemap test membership through a function-local static vector<bool> mask for subsets of 48 or more vertices (shared by all threads)',
    'C19-agent6': 'findVertexPredecessors keeps its FIFO in a vector and compacts "every 128 vertices" but erases one entry too few (the 129th, 258th ... dequeued vertex is scanned twice)',
    'C20-agent6': 'topology.hpp gains a free assertVertexInGraph(const Graph&, const VertexIndex&) next to the one in paths.hpp (ambiguous call once both headers are in one TU and an entry point of the second is instantiated)',
}

CONSEQUENCE = {
    'C06-agent1': 'missed by the first version of C06 (all weights dyadic) -> non-dyadic weights added',
    'C07-agent1': 'seen by the first version only when a resize followed the rejected call -> `==` with a copy added',
    'C10-agent2': 'missed by the first version of C10 (graphs built by insertions only; C02 caught it) -> removal history added to all graph-shaped cases',
    'C14-agent1': 'missed by the first version of C14 (<= 12 vertices; the C15 fuzz target caught it) -> bigindex mode added',
    'C16-agent2': 'missed by the first version of C16 (multiplicities <= 1000) -> multiplicities of several 10^8 added (which also exposed D16)',
    'C18-agent1': 'missed by the first version of C18 (baseline computed before the threads primed the static) -> fork per case, threads first',
    'C18-agent2': 'would have been masked the same way (observers called before the threads) -> no observer before the threads',
    'C19-agent2': 'random graphs only caught it now and then -> looppath / tristrip / cliquechain families added',
    'C20-agent1': 'missed by the first catalogue (no braced label) -> braced labels, README example and examples/*.cpp added',
    'C12-agent2': 'caught through pred[source] != source; the detached predecessor cycles were not -> chain-to-source check added',
    'C17-agent2': 'caught by C19 (ASan on the >=128-vertex families); C17 had no large graph -> family stream added to C17',
    'C03-agent3': 'missed: no label type was an empty class -> label kind `empty` (class with only operator==) added to C03 and C20',
    'C05-agent3': 'missed: no weight below machine epsilon -> exact-mode weights on the grids 2^-65 and 2^37 added to C05 / C06',
    'C06-agent3': 'caught only by chance in the independent-histories scenario -> scenario "one edge moved" (same counts, different edge set) added',
    'C10-agent3': 'missed: C10 never made a rejected call, C07 never looked at the next extraction -> rejected extractions (bad member first / last in the set) interleaved in C10',
    'C11-agent3': 'missed: all C11 graphs were duplicate-free -> graphs with forced duplicate list entries added to C11',
    'C12-agent3': 'missed: smallest weight was 1/8 -> weight modes k*2^-60 and k*2^40 added to C12',
    'C14-agent3': 'missed: no IO before main() -> a global object defined above the #include of fileio.hpp writes and reads a file during static initialisation',
    'C16-agent3': 'missed: C16 graphs had <= 12 vertices -> job with 33-70 vertices added',
    'C17-agent3': 'missed: vertex arguments were always locals -> rmvtx / removeEdge / removeMultiedge / setEdgeMultiplicity are also called with references into the graph\'s own neighbour lists',
    'C19-agent3': 'missed: all C19 weights were integers -> k/7 weights and the `fanin` family (hub improved m times, fan-out L, non-dyadic weights) added',
    'C20-agent3': 'missed: the catalogue always spelled the label type -> CTAD constructor snippets (C++17 and later) added',
    'C01-agent4': 'caught through the empty-class label kind (added after round 3) in C01',
    'C02-agent4': 'missed: the vertices of the 129-700 job almost never included 255 / 511 -> 10 % of the vertex values are taken next to word-size boundaries; a later run of the hardest changes under seeds 2 and 3 still missed it once -> 1500 instead of 400 cases of that size class, removeDuplicateEdges 8 % of their operations (then reported under seeds 1-6)',
    'C04-agent4': 'caught through the 129-700-vertex job added for it',
    'C05-agent4': 'caught through the read-modify-read probe added for it (hasEdge + getter on both orientations right before and right after each pair operation)',
    'C06-agent4': 'caught, but the 66-80-vertex pairs took 2000 CPU-s -> light observation for them',
    'C08-agent4': 'missed by C08 (C01 caught it through the new sparse observation) -> history job with observation after every 1st-5th mutation added to C08',
    'C09-agent4': 'caught through the conversions-inside-histories job added for it',
    'C10-agent4': 'missed by C10 (C02 caught it through `fill`) -> `hub` graphs with 66-100 vertices and index-range subsets in C10',
    'C11-agent4': 'missed: a process searched thousands of times on every class, the coincidence of stamps needs the first searches -> job that runs each case in a forked child of a process that never searched, as three classes in a generated order',
    'C12-agent4': 'missed -> 2.4 % of the cases repeat a validated search after 2^8-1 / 2^16-1 searches that never reach its source (C11, C12, C19); first version chose a source without out-edges, now one that reaches something',
    'C13-agent4': 'found, but reported as "broken" (the failing case passes alone) -> failures that replay clean are re-run with a trail, replayed as a sequence in one process and minimised (section 3.0); the replay file holds 2 cases',
    'C14-agent4': 'missed: files had <= 70 records -> files of 8000-14000 records (`dense`)',
    'C15-agent4': 'missed: indices >= 65536 were outside the generated domain -> 0xFFFFFFFF (no allocation) admitted to the fuzz target (seeds, dictionary) and spliced in at every record boundary of the cut-offset job',
    'C16-agent4': 'missed by C16 (C06 caught it) -> `fill` in the 33-80-vertex jobs of C16',
    'C17-agent4': 'missed twice: C17 had no sequence outside the domains of C01-C16 -> `safety_only` stream (all mutators after forced duplicates, no model comparison); then too rare -> "same pair as the previous operation" selector in every history generator',
    'C18-agent4': 'missed: shared objects were freshly built -> 0-70000 value updates on the shared object before the readers start',
    'C19-agent4': 'caught by C11 only -> the C19 counts are taken after pair searches; a runaway child (38 GB) showed that forked children need a watchdog (section 6.10)',
    'C02-agent5': "reported by C09, not by C02: the container constructors are C09's subject, the histories of C02 start from the size constructor (the author of the change noted the same about its scope)",
    'C05-agent5': 'as C02-agent5: reported by C09 (constructor with a pair listed twice vs adding one at a time)',
    'C06-agent5': "missed by C06 as it stood (C09 caught it) -> `xcopy` in the histories of C06, C09 and C17: the graph is rebuilt through the container constructor from the model's edges, a third of the pairs listed twice",
    'C09-agent5': 'missed as it stood: no self-assignment anywhere -> `xcopy` also does a copy round trip, a self-assignment through a reference and a move round trip, inside histories of all eight classes',
    'C11-agent5': 'the C11 / C19 executor did not compile against it (exit 2, "broken", not a report): the instrumented graph type offered only the members the searches used until then -> the counting wrappers derive from the graph classes and shadow getOutNeighbours',
    'C12-agent5': 'missed by C12 as it stood (C05 caught it): graph-shaped cases were built with addEdge only -> construction histories also set values through setEdgeWeight / setEdgeMultiplicity / setEdgeLabel, in the orientation generated',
    'C13-agent5': 'missed as it stood: the graphs of the text round trip had no duplicate list entries ("any graph") -> 8 % forced entries',
    'C17-agent5': 'missed by the quick tier as it stood (no construction from a container in the streams; valgrind runs in the thorough tier only) -> `xcopy` in the C17 streams; reported through the model comparison of the stream (total weight -nan)',
    'C18-agent5': 'missed as it stood: the per-thread file names differed in the stem -> names that differ only in the extension (shard.0, shard.1) or only in the last character of the stem, chosen per case',
    'C08-agent6': "reported by C09, not by C08: the conversion is C09's subject; the enumeration honestly visits what the converted graph stores",
    'C09-agent6': 'missed as it stood: container entries of the multigraphs had multiplicities 1..3 -> a fifth of the entries have multiplicity 0 (adds nothing, counts for the size)',
    'C11-agent6': 'missed as it stood: the graphs of C11 had at most 10 vertices, the many-path families belonged to C19 (work counts only) -> a C11 job on the layered / grid / diamond / ladder / clique-chain families at sizes where every pair has at most 4^6 or 3^8 shortest paths, complete path sets compared',
    'C12-agent6': "missed by C12 as it stood (C09 caught it): the searched graph was always the object the history was applied to -> `via`: 30 % of the cases search a copy, a rebuild through the container constructor (vector or list) from the graph's edges and weights, or a moved-to object",
    'C14-agent6': 'missed as it stood: every case wrote to a path that did not exist -> in a quarter of the round trips of C13 and C14 the output path already holds a file (junk, one record, or a longer file than the new one)',
    'C17-agent6': 'missed by C17 as it stood (C13 and C15 report it): no stream of C17 called the loaders -> the round-trip, subgraph and conversion streams of C13, C14, C10 and C09 run under the san and o0 builds of C17',
    'C18-agent6': 'missed as it stood: the shared graphs had 3-7 vertices -> a second C18 job on shared graphs with 66-100 vertices and hubs; its subgraph subsets hold four vertices in five (53-80 members)',
}

REVERTS = [
    ('revert_01 (D4)', 'C08, C01, C02, C09, C13, C14'), ('revert_02 (D1)', 'C03, C04, C05, C06'), ('revert_03 (D2)', 'C03, C04, C05, C06'), ('revert_04 (D6)', 'C04'),
    ('revert_05 (D7)', 'C05, C06'), ('revert_06 (D3)', 'C07 (C17 not: a forced out-of-range call is not a *valid* use)'), ('revert_07 (D11)', 'C07'), ('revert_08 (D8)', 'C09, C20'),
    ('revert_09 (D5)', 'C09'), ('revert_10 (D13)', 'C17, C12, C19'), ('revert_11 (D12)', 'C19'), ('revert_12 (D14)', 'C15'), ('revert_13 (D15)', 'C15'), ('revert_14 (D10)', 'C20'),
    ('revert_15 (D9)', 'C20'), ('revert_16 (D16)', 'C04, C16 (and `seeded/C04-agent3`, an independent re-introduction of the same defect)')]


def main():
    rows = []
    n = 0
    for d in sorted(glob.glob(os.path.join(ROOT, 'seeded', '*'))):
        mp = os.path.join(d, 'meta.json')
        if not os.path.exists(mp):
            continue
        m = json.load(open(mp))
        n += 1
        rows.append("| `%s` | %s | %s | %s |" % (m['id'], SHORT.get(m['id'], ''), ", ".join(m['caught_by']) or 'NONE', CONSEQUENCE.get(m['id'], '')))
    missed = len(CONSEQUENCE)
    others = []
    for d in sorted(glob.glob(os.path.join(ROOT, 'seeded', '*'))):
        mp = os.path.join(d, 'meta.json')
        if os.path.exists(mp):
            m = json.load(open(mp))
            if m['property'] not in m['caught_by']:
                others.append("`%s` by %s" % (m['id'], ", ".join(m['caught_by']) or "NONE"))
    other = (" - %d by the check of the property they were written against, the others by the property whose subject they are (%s)" % (n - len(others), "; ".join(others))) if others else ", each by the check of the property it was written against"
    sec = '''## 9. Sensitivity: which checks catch which broken versions of the library

All of this is run with `tools/mutant_run.py`: the patch is applied to a scratch
git worktree of `/repo` under `/tmp` (never to `/repo`), the repository's own
suite is built and run there (it must stay green), then the quick tier of the
named checks runs with `VERIF_REPO=<worktree>`, and the worktree is removed.

### 9.1 Reverts of the sixteen repairs (`mutants/revert_NN_<commit>.diff`)

Each revert re-introduces one defect of section 2; every one is reported by the check(s)
that found it originally.

| revert | reported by (quick tier, seed 1) |
|---|---|
''' + "\n".join("| `%s` | %s |" % r for r in REVERTS) + '''

### 9.2 Changes written by independent sub-agents (`seeded/<id>/`)

%d changes, six per property, each written by a fresh sub-agent that was given
only the text of one property and its own scratch worktree (nothing from
`/verif`); the agents of the second and third round were additionally told, in
one line each, what the earlier ones had done and asked for something unrelated,
the third round also for something "hard to trigger by randomly generated small
inputs", the fourth, fifth and sixth for the kinds of change named below. For each one `seeded/<id>/` holds `patch.diff`, the agent's `demo.cpp`
and `notes.txt`, and `meta.json` (what it needs to manifest, what was run, the
outcome). Confirmed for all of them by `tools/mutant_run.py` and
`tools/confirm_demos.py`: the patch applies, the 364 tests pass with it,
`demo.cpp` exits non-zero with the patch and 0 without.

**All %d are now reported by the quick tier** (seed 1)%s.
55 of them were *not* (or not reliably, or only by the check of another property)
caught by the version of the checks that existed when they were written; the last
column says what was changed in the machinery because of them - in every case by
widening the generator or the set of observations, never by special-casing the
change. The miss rate did not go down from round to round - 5, 6, 11, 16 and 9
of 20, then 6 of 20 (not counting C08-agent6, reported by C09 alone) - because the later agents were asked for subtler changes: the fourth round
was asked for changes that need *accumulated state*, a *word-size threshold*
(64 neighbours, 256 vertices, 8192 records, 2^14 updates, 2^16 calls), *two
cooperating sites* or *an order of three different operations on one object*. It
is the honest measure of what such checks overlook: a quick tier of ten thousand
small random cases finds none of those unless the generator has a dimension for
it. What the fourth round added are such dimensions (section 3.0) - size classes,
long update histories, call counts at word boundaries, fresh processes, several
classes per thread, operations that stay on one pair - not cases. The fifth round
was asked for seldom-used entry points, overloads and argument forms and for
combinations of two features; what it added are value-semantics operations inside
histories (copy, self-assignment, move, rebuilding through a container
constructor), setters in the construction histories of the graph-shaped cases,
duplicate entries in the round-trip graphs and file names that differ only in
their extension. The sixth round was asked for failures that
depend on values or positions (index relations, list positions, particular label,
weight or multiplicity values, neighbour counts) or on two features used one after
the other; fourteen of the twenty were reported by the check of their property as
it stood, and the six misses added many-path families with complete path sets to
C11, multiplicity-0 container entries to C09, output paths that already hold a file
to C13 / C14, searches on copies, container-constructor rebuilds and moved-to
objects to C11 / C12, large shared graphs to C18, and the file, subgraph and
conversion streams to C17.

| id | change | reported by | consequence for the machinery |
|---|---|---|---|
''' % (n, n, other) + "\n".join(rows) + '''

Lessons that generalise beyond the individual changes: (1) *value alphabets
must include the extremes of the declared types* - weights with full mantissas,
weights below machine epsilon and above 2^40, multiplicities near 2^32, indices
with 0xFF bytes, graphs wider than a machine word, a label type with no data at
all: small alphabets are good for collisions and bad for arithmetic and for
type-level dispatch; (2) *state that no observer can reach is still state* -
`operator==`, re-use after `resize`, and the *next* call after a rejected one see
what `hasEdge`/`getEdgeLabel` cannot, so they belong in "observably identical";
(3) *a harness that computes its reference result first can hide exactly the
defect it looks for* (warm caches, initialised statics), so for C18 the code
under test runs first, in a fresh process, and for C14 some IO happens before
`main()`, and for C11/C12 one job runs every case in a child of a process that
never searched; (4) *how* an argument is passed is part of the input: a vertex index
handed over as a reference into the graph's own lists is a valid call that a
by-value harness never makes; (5) documentation is an input too: the CTAD form
and the braced labels only existed in comments and examples; (6) *a threshold
in the code needs a dimension in the generator*: "more than 64 neighbours", "256
vertices", "8192 records", "65536 calls" are unreachable for any number of
small cases, and cheap once there is a size class, a `fill`, a `churn` or a call
counter for them; the thresholds worth a dimension are the word sizes; (7) *the
unit of reproduction is the process, not the case*: state kept between calls makes
the thousandth case fail and the same case pass alone, so a failure that does not
replay is first retried as the sequence that led to it.

'''
    p = os.path.join(ROOT, 'DESIGN.md')
    s = open(p).read()
    a = s.index('## 9. Sensitivity')
    s = s[:a] + sec
    open(p, 'w').write(s)
    print("section 9 written:", n, "seeded changes")


if __name__ == '__main__':
    main()

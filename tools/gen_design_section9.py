#!/usr/bin/env python3
"""Regenerates section 9 of DESIGN.md (sensitivity results) from seeded/*/meta.json and the tables below."""
import glob
import json
import os

ROOT = os.path.dirname(os.path.dirname(os.path.abspath(__file__)))

SHORT = {
    'C01-agent1': 'addReciprocalEdge decides both orientations from one existence lookup (one orientation already present)',
    'C01-agent2': 'removeVertexFromEdgeList returns early for a vertex without out-edges (in-edges of a pure sink stay)',
    'C01-agent3': 'removeSelfLoops stops scanning when the summed out-degrees reach the (shrinking) edge count (>= 2 loops, sparse tail)',
    'C02-agent1': 'early exit in undirected removeVertexFromEdgeList with bound `i >= vertex` (vertex with only lower neighbours / self-loop)',
    'C02-agent2': 'undirected removeEdge normalises only the first list (removal named larger-first leaves a stale half-edge)',
    'C02-agent3': 'base-class clearEdges stops when the summed list sizes reach the edge count (undirected: half of the lists survive)',
    'C03-agent1': 'undirected removeVertexFromEdgeList leaves the label of a self-loop behind',
    'C03-agent2': 'undirected hasEdge(i,j,label) drops the existence test (true for an absent pair and the default label)',
    'C03-agent3': 'label storage dispatched on std::is_empty instead of is_same<NoLabel>: an empty-class label never throws for absent edges',
    'C04-agent1': 'multigraph add/remove decide existence from the label map; removing an absent pair leaves a phantom 0 entry, a later add only bumps it',
    'C04-agent2': 'UndirectedMultigraph::removeAllEdges normalises only one side (setEdgeMultiplicity(hi,lo,0))',
    'C04-agent3': 'UndirectedMultigraph::getDegree computes 2*multiplicity in 32 bits again (self-loop of multiplicity >= 2^31)',
    'C05-agent1': 'UndirectedWeightedGraph::setEdgeWeight treats current weight 0 as "no edge"',
    'C05-agent2': 'DirectedWeightedGraph::removeVertexFromEdgeList keeps the weights of the out-edges',
    'C05-agent3': 'UndirectedWeightedGraph::removeEdge snaps a total below DBL_EPSILON to 0 (weights around 2^-60)',
    'C06-agent1': 'DirectedWeightedGraph::operator== short-circuits on the cached total weight (accumulation order)',
    'C06-agent2': 'UndirectedMultigraph::removeMultiedge on an absent pair inserts a zero entry in the label map (== sees it)',
    'C06-agent3': 'UndirectedGraph::operator== compares only pairs i<j: a self-loop moved to another vertex goes unnoticed',
    'C07-agent1': 'DirectedWeightedGraph::setEdgeWeight touches the label map before the range check (phantom weight for an invalid pair)',
    'C07-agent2': 'undirected getDegree(v,false) loses its range check (only the fast path)',
    'C07-agent3': 'UndirectedMultigraph::addMultiedge returns on multiplicity 0 before checking the indices',
    'C08-agent1': 'undirected Edges::begin() never examines the last vertex (graph whose only edges are loops on it)',
    'C08-agent2': 'directed edge iterator it++ stops on a vertex without out-edges in the middle',
    'C08-agent3': 'getReversedGraph built through the edge-list constructor: trailing isolated vertices are dropped',
    'C09-agent1': 'labelled edge-list constructor inserts with force and de-duplicates afterwards (last label wins on repeated pairs)',
    'C09-agent2': 'undirected-from-directed constructor looks the label up under the ordered pair (edge stored only high->low)',
    'C09-agent3': 'getDirectedGraph mirrors labels while iterating the unordered_map it inserts into (rehash: dense graphs lose labels)',
    'C10-agent1': '[min,max] window pre-filter with `break` in getSubgraph / WithRemap (unsorted neighbour lists)',
    'C10-agent2': 'undirected removeEdge leaves a stale half-edge; getSubgraph resurrects it (needs a graph with removal history)',
    'C10-agent3': 'thread_local membership mask left dirty when an extraction throws: the next extraction sees stale members',
    'C11-agent1': 'BFS stops once every vertex is discovered (all-predecessor lists lose parents still in the queue)',
    'C11-agent2': 'findGeodesics returns "unreachable" when the destination has no out-edges (directed sinks)',
    'C11-agent3': 'all-predecessor BFS drops its duplicate-parent test (repeated paths on graphs whose lists hold duplicates)',
    'C12-agent1': 'lazy-deletion Dijkstra + push_heap (wrong distances from 4 vertices / 3 weights up)',
    'C12-agent2': 'equal-length tie-break rewrites predecessors (pred[source] != source, predecessor cycles over zero-weight edges)',
    'C12-agent3': 'relaxation ignores improvements <= DBL_EPSILON as an absolute tolerance (weights around 2^-60)',
    'C13-agent1': 'comment test skips leading blanks (indented line whose first name starts with #)',
    'C13-agent2': 'label cut at its first inner blank',
    'C13-agent3': 'line loop tests getline().good(): a last line without newline is dropped',
    'C14-agent1': 'end-of-file test stores peek() in a char: a record starting with byte 0xFF ends the load',
    'C14-agent2': 'loader compares both endpoints against a stale size (record with two new endpoints, source > destination)',
    'C14-agent3': 'endianness flag with inverted polarity: IO during static initialisation (before the flag is initialised) byte-swaps',
    'C15-agent1': 'index tokens parsed with stoul, negative check dropped (first line "-1 ...")',
    'C15-agent2': 'labelled binary loader accepts a record whose label is cut',
    'C15-agent3': 'comment test indexes the line with find_first_not_of(): reads line[npos] on a blank line (1 byte before the buffer)',
    'C16-agent1': 'undirected removeDuplicateEdges also erases the label of the surviving copy',
    'C16-agent2': 'DirectedMultigraph::removeDuplicateEdges sums the removed multiplicities in 32 bits (needs totals >= 2^32)',
    'C16-agent3': 'removeDuplicateEdges bit-mask fast path for <= 64 vertices computes `1u << j` (neighbours alias modulo 32 on 33-64 vertices)',
    'C17-agent1': 'push_heap instead of make_heap in Dijkstra (heap precondition; results stay right)',
    'C17-agent2': 'BFS keeps a reference to queue.front() across pop() (use-after-free from the 128th dequeue)',
    'C17-agent3': 'UndirectedMultigraph::removeVertexFromEdgeList takes its vertex by const reference (use-after-free when the argument aliases a list node)',
    'C18-agent1': 'byte-order flag becomes a lazily initialised function-local static (race on first binary IO)',
    'C18-agent2': 'mutable firstSourceHint written by the const Edges::begin() (race on first edge iteration)',
    'C18-agent3': 'BFS workspace is thread_local but bound through a function-local `static` reference: all threads share the first caller\'s buffers',
    'C19-agent1': 'push_heap instead of make_heap in Dijkstra (scans above V+E+1 on hill-climbed graphs)',
    'C19-agent2': 'all-predecessor BFS re-enqueues single-predecessor vertices (self-loops / odd cycles, scans ~n^2/2)',
    'C19-agent3': 'Dijkstra forms the candidate length in long double but stores double: spurious "improvements" re-push neighbours (non-dyadic weights, wide fan-out)',
    'C20-agent1': 'addEdge becomes a perfect-forwarding template: braced labels as in examples/ stop compiling',
    'C20-agent2': '_isSystemBigEndian loses `inline`: two TUs including fileio.hpp do not link',
    'C20-agent3': 'LabeledEdge alias goes through std::decay: the documented CTAD form `LabeledDirectedGraph graph(labeledEdges)` no longer deduces',
}

CONSEQUENCE = {
    'C06-agent1': 'missed by the first version of C06 (all weights dyadic) -> non-dyadic weights added',
    'C07-agent1': 'seen by the first version only when a resize followed the rejected call -> `==` with a copy added',
    'C10-agent2': 'missed by the first version of C10 (graphs built by insertions only; C02 caught it) -> removal history added to all graph-shaped cases',
    'C14-agent1': 'missed by the first version of C14 (<= 12 vertices; the C15 fuzz target caught it) -> bigindex mode added',
    'C16-agent2': 'missed by the first version of C16 (multiplicities <= 1000) -> multiplicities of several 10^8 added (which also exposed D16)',
    'C18-agent1': 'missed by the first version of C18 (baseline computed before the threads primed the static) -> fork per case, threads first',
    'C18-agent2': 'would have been masked the same way (observers called before the threads) -> no observer before the threads',
    'C19-agent2': 'random graphs only caught it now and then -> looppath / tristrip / cliquechain families added',
    'C20-agent1': 'missed by the first catalogue (no braced label) -> braced labels, README example and examples/*.cpp added',
    'C12-agent2': 'caught through pred[source] != source; the detached predecessor cycles were not -> chain-to-source check added',
    'C17-agent2': 'caught by C19 (ASan on the >=128-vertex families); C17 had no large graph -> family stream added to C17',
    'C03-agent3': 'missed: no label type was an empty class -> label kind `empty` (class with only operator==) added to C03 and C20',
    'C05-agent3': 'missed: no weight below machine epsilon -> exact-mode weights on the grids 2^-65 and 2^37 added to C05 / C06',
    'C06-agent3': 'caught only by chance in the independent-histories scenario -> scenario "one edge moved" (same counts, different edge set) added',
    'C10-agent3': 'missed: C10 never made a rejected call, C07 never looked at the next extraction -> rejected extractions (bad member first / last in the set) interleaved in C10',
    'C11-agent3': 'missed: all C11 graphs were duplicate-free -> graphs with forced duplicate list entries added to C11',
    'C12-agent3': 'missed: smallest weight was 1/8 -> weight modes k*2^-60 and k*2^40 added to C12',
    'C14-agent3': 'missed: no IO before main() -> a global object defined above the #include of fileio.hpp writes and reads a file during static initialisation',
    'C16-agent3': 'missed: C16 graphs had <= 12 vertices -> job with 33-70 vertices added',
    'C17-agent3': 'missed: vertex arguments were always locals -> rmvtx / removeEdge / removeMultiedge / setEdgeMultiplicity are also called with references into the graph\'s own neighbour lists',
    'C19-agent3': 'missed: all C19 weights were integers -> k/7 weights and the `fanin` family (hub improved m times, fan-out L, non-dyadic weights) added',
    'C20-agent3': 'missed: the catalogue always spelled the label type -> CTAD constructor snippets (C++17 and later) added',
}

REVERTS = [
    ('revert_01 (D4)', 'C08, C01, C02, C09, C13, C14'), ('revert_02 (D1)', 'C03, C04, C05, C06'), ('revert_03 (D2)', 'C03, C04, C05, C06'), ('revert_04 (D6)', 'C04'),
    ('revert_05 (D7)', 'C05, C06'), ('revert_06 (D3)', 'C07 (C17 not: a forced out-of-range call is not a *valid* use)'), ('revert_07 (D11)', 'C07'), ('revert_08 (D8)', 'C09, C20'),
    ('revert_09 (D5)', 'C09'), ('revert_10 (D13)', 'C17, C12, C19'), ('revert_11 (D12)', 'C19'), ('revert_12 (D14)', 'C15'), ('revert_13 (D15)', 'C15'), ('revert_14 (D10)', 'C20'),
    ('revert_15 (D9)', 'C20'), ('revert_16 (D16)', 'C04, C16 (and `seeded/C04-agent3`, an independent re-introduction of the same defect)')]


def main():
    rows = []
    n = 0
    for d in sorted(glob.glob(os.path.join(ROOT, 'seeded', '*'))):
        mp = os.path.join(d, 'meta.json')
        if not os.path.exists(mp):
            continue
        m = json.load(open(mp))
        n += 1
        rows.append("| `%s` | %s | %s | %s |" % (m['id'], SHORT.get(m['id'], ''), ", ".join(m['caught_by']) or 'NONE', CONSEQUENCE.get(m['id'], '')))
    missed = len(CONSEQUENCE)
    sec = '''## 9. Sensitivity: which checks catch which broken versions of the library

All of this is run with `tools/mutant_run.py`: the patch is applied to a scratch
git worktree of `/repo` under `/tmp` (never to `/repo`), the repository's own
suite is built and run there (it must stay green), then the quick tier of the
named checks runs with `VERIF_REPO=<worktree>`, and the worktree is removed.

### 9.1 Reverts of the sixteen repairs (`mutants/revert_NN_<commit>.diff`)

Each revert re-introduces one defect of section 2; every one is reported by the check(s)
that found it originally.

| revert | reported by (quick tier, seed 1) |
|---|---|
''' + "\n".join("| `%s` | %s |" % r for r in REVERTS) + '''

### 9.2 Changes written by independent sub-agents (`seeded/<id>/`)

%d changes, three per property, each written by a fresh sub-agent that was given
only the text of one property and its own scratch worktree (nothing from
`/verif`); the agents of the second and third round were additionally told, in
one line each, what the earlier ones had done and asked for something unrelated,
the third round also for something "hard to trigger by randomly generated small
inputs". For each one `seeded/<id>/` holds `patch.diff`, the agent's `demo.cpp`
and `notes.txt`, and `meta.json` (what it needs to manifest, what was run, the
outcome). Confirmed for all of them by `tools/mutant_run.py` and
`tools/confirm_demos.py`: the patch applies, the 364 tests pass with it,
`demo.cpp` exits non-zero with the patch and 0 without.

**All %d are now reported by the quick tier of the property they target** (seed 1).
%d of them were *not* (or not reliably) caught by the version of the checks that
existed when they were written; the last column says what was changed in the
machinery because of them - in every case by widening the generator or the set
of observations, never by special-casing the change. (The miss rate did not go
down from round to round - 5, 6 and 11 - because the later agents were asked for
subtler changes; it is the honest measure of what such checks still overlook.)

| id | change | reported by | consequence for the machinery |
|---|---|---|---|
''' % (n, n, missed) + "\n".join(rows) + '''

Lessons that generalise beyond the individual changes: (1) *value alphabets
must include the extremes of the declared types* - weights with full mantissas,
weights below machine epsilon and above 2^40, multiplicities near 2^32, indices
with 0xFF bytes, graphs wider than a machine word, a label type with no data at
all: small alphabets are good for collisions and bad for arithmetic and for
type-level dispatch; (2) *state that no observer can reach is still state* -
`operator==`, re-use after `resize`, and the *next* call after a rejected one see
what `hasEdge`/`getEdgeLabel` cannot, so they belong in "observably identical";
(3) *a harness that computes its reference result first can hide exactly the
defect it looks for* (warm caches, initialised statics), so for C18 the code
under test runs first, in a fresh process, and for C14 some IO happens before
`main()`; (4) *how* an argument is passed is part of the input: a vertex index
handed over as a reference into the graph's own lists is a valid call that a
by-value harness never makes; (5) documentation is an input too: the CTAD form
and the braced labels only existed in comments and examples.

'''
    p = os.path.join(ROOT, 'DESIGN.md')
    s = open(p).read()
    a = s.index('## 9. Sensitivity')
    s = s[:a] + sec
    open(p, 'w').write(s)
    print("section 9 written:", n, "seeded changes")


if __name__ == '__main__':
    main()

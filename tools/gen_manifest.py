#!/usr/bin/env python3
"""Regenerates /verif/MANIFEST.json from lib/props.py (keeps the two in sync)."""
import json
import os
import sys

sys.path.insert(0, os.path.dirname(os.path.dirname(os.path.abspath(__file__))))
from lib import props  # noqa: E402

ALL = ["C%02d" % i for i in range(1, 21)]

BASELINE = ("cmake -S /repo -B /repo/_build -G Ninja -DBUILD_TESTS=ON >/dev/null && cmake --build /repo/_build >/dev/null && "
            "ctest --test-dir /repo/_build -j8 --timeout 900")


def main():
    checks = []
    for pid in ALL:
        p = props.PROPS.get(pid)
        if not p or p.get("unclaimed"):
            continue
        checks.append(dict(
            property_id=pid,
            quick_cmd="python3 check.py %s --tier quick" % pid,
            thorough_cmd="python3 check.py %s --tier thorough" % pid,
            evidence_file="evidence/%s.json" % pid,
            replay_cmd_template="python3 check.py %s --replay {path}" % pid,
            engine=p.get("engine_name", "rapidcheck + model executor"),
            level_claimed=dict(category=p.get("level", "exploration"), text=p.get("level_text", "Generated-input search against an explicit reference model; "
                               "holds on everything explored, no absence claim."), design_ref=p.get("design_ref", "DESIGN.md section 3, " + pid)),
            level_note=p.get("level_note", "Trusted: the reference model written from the documentation, the harness, the compilers and sanitizers."),
            technique=p.get("technique", "property-based testing (rapidcheck), model-based oracle, ASan+UBSan+libstdc++ debug mode"),
        ))
    na = []
    for pid in ALL:
        p = props.PROPS.get(pid)
        if not p or p.get("unclaimed"):
            na.append(dict(property_id=pid, reason=(p or {}).get("unclaimed", "check not built yet (work in progress; see DESIGN.md)")))
    m = dict(
        version=1,
        setup_cmd="sh setup.sh",
        hooks=dict(guard="BASEGRAPH_VERIF", enable="no hooks are needed: every check drives the public API of the header-only library; executors are compiled from /repo/include on every run",
                   baseline_off_cmd=BASELINE, source_commits=[], add_only=True),
        engines=[
            dict(name="pbt", path="driver/pbt_main.cpp", serves_properties=[c["property_id"] for c in checks], kind_free_text="rapidcheck generators -> case text -> executor (C ABI) with reference model"),
            dict(name="enum", path="driver/enum_main.cpp", serves_properties=["C01", "C02", "C03", "C08", "C09", "C10", "C11", "C12"],
                 kind_free_text="exhaustive enumeration of small scopes (every graph on n vertices x insertion orders x single mutators) through the same executors"),
            dict(name="fuzz", path="driver/fuzz_main.cpp", serves_properties=["C13", "C15", "C17", "C19"],
                 kind_free_text="libFuzzer (coverage-guided, ASan+UBSan): bytes decoded into files / histories / weighted graphs, semantic oracle inside the target; seed corpora and dictionaries under fuzzseeds/"),
            dict(name="hypothesis-programs", path="lib/c20_hyp.py", serves_properties=["C20"],
                 kind_free_text="Hypothesis-generated client programs (label kind x standard x compiler x header order x snippets from progmatrix/catalogue.py); compilers, linker and exit status as oracle"),
            dict(name="replay", path="driver/replay_main.cpp", serves_properties=[c["property_id"] for c in checks],
                 kind_free_text="bare re-execution of one saved case, or of a sequence of cases in one process (failures that need earlier calls)"),
        ],
        checks=checks,
        not_applicable=na,
        notes="Driver: check.py (lib/runner.py). Executors (exec/*.cpp) are rebuilt from /repo's working tree whenever a file under /repo/include changes "
              "(content-addressed object cache under build/). VERIF_SEED selects the random streams; VERIF_REPO points the checks at another tree (mutation testing).",
    )
    with open(os.path.join(os.path.dirname(os.path.dirname(os.path.abspath(__file__))), "MANIFEST.json"), "w") as f:
        json.dump(m, f, indent=1)
        f.write("\n")
    print("claimed:", [c["property_id"] for c in checks])
    print("not claimed:", [n["property_id"] for n in na])


if __name__ == "__main__":
    main()

#!/usr/bin/env python3
"""Writes the small committed seed corpora of the libFuzzer targets (valid inputs taken from the repository's tests' style)."""
import os, struct
root = os.path.join(os.path.dirname(os.path.dirname(os.path.abspath(__file__))), "fuzzseeds")
def w(t, name, data):
    os.makedirs(os.path.join(root, t), exist_ok=True)
    open(os.path.join(root, t, name), "wb").write(data)
# rawtext: byte0 = directed | names<<1 | label<<2  (label 0 none, 1 string, 2 int)
texts = [b"# Vertex1 Vertex2 Label\n0 2\n0 1\n0 0\n5 10\n", b"0 1 a\n1 2 b c\n\t3  0\tlast \n", b"a b 1\nb c 22\n#x\n c a 3", b"1 2\n# comment\n2 3\n", b"0 1 5\n1 0 -7\n"]
k = 0
for sel in range(12):
    w("rawtext", "seed%02d" % k, bytes([sel]) + texts[k % len(texts)]); k += 1
# rawbin: byte0 = directed | label<<1, label index into none,i8,u8,i16,u16,i32,u32,i64,u64,f32,f64
sizes = [0, 1, 1, 2, 2, 4, 4, 8, 8, 4, 8]
k = 0
for li, sz in enumerate(sizes):
    for directed in (0, 1):
        recs = b""
        for (a, b) in ((0, 1), (1, 2), (2, 2), (4, 0)):
            recs += struct.pack("<II", a, b) + bytes((7 * a + b + i) & 255 for i in range(sz))
        w("rawbin", "seed%02d" % k, bytes([directed | (li << 1)]) + recs); k += 1
# a file whose last record names vertex 0xFFFFFFFF (index+1 wraps to 0)
for li, sz in enumerate(sizes):
    recs = struct.pack("<II", 0, 1) + bytes(sz) + struct.pack("<II", 1, 2) + bytes(sz) + struct.pack("<II", 0xFFFFFFFF, 0) + bytes(sz)
    w("rawbin", "seed%02d" % k, bytes([(li & 1) | (li << 1)]) + recs); k += 1
open(os.path.join(root, "rawbin.dict"), "w").write('"\\xff\\xff\\xff\\xff"\n"\\x00\\x00\\x00\\x00"\n"\\x01\\x00\\x00\\x00"\n"\\xff\\xff\\x00\\x00"\n"\\x00\\x01\\x00\\x00"\n')
open(os.path.join(root, "rawtext.dict"), "w").write('"#"\n"\\x09"\n" "\n"\\x0a"\n"-1"\n"0"\n"1"\n"10"\n"65536"\n"2147483648"\n"+"\n"-"\n"\\x0d"\n')
print("ok")

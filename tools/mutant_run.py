#!/usr/bin/env python3
"""Sensitivity testing: applies a patch to a scratch worktree of /repo (outside /repo and /verif),
confirms the repository's own test suite still passes there, runs the given checks against it
(VERIF_REPO) and reports which of them raise a VIOLATION.  The worktree and its build output are
removed afterwards.

  tools/mutant_run.py <patch.diff> [--props C01,C03 | --all] [--tier quick] [--keep] [--skip-tests]
"""
import argparse
import json
import os
import shutil
import subprocess
import sys
import tempfile
import time

VERIF = os.path.dirname(os.path.dirname(os.path.abspath(__file__)))
ALL = ["C%02d" % i for i in range(1, 21)]


def sh(cmd, **kw):
    return subprocess.run(cmd, capture_output=True, text=True, **kw)


def main():
    ap = argparse.ArgumentParser()
    ap.add_argument("patch")
    ap.add_argument("--props", default="")
    ap.add_argument("--all", action="store_true")
    ap.add_argument("--tier", default="quick")
    ap.add_argument("--keep", action="store_true")
    ap.add_argument("--skip-tests", action="store_true")
    ap.add_argument("--seed", default="1")
    ap.add_argument("--json", default="")
    a = ap.parse_args()
    props = ALL if a.all or not a.props else a.props.split(",")
    wt = tempfile.mkdtemp(prefix="bg_mut_", dir="/tmp")
    os.rmdir(wt)
    out = dict(patch=a.patch, worktree=wt, tests=None, checks={})
    r = sh(["git", "-C", "/repo", "worktree", "add", "--detach", wt, "HEAD"])
    if r.returncode != 0:
        print(r.stderr)
        return 2
    try:
        r = sh(["git", "-C", wt, "apply", "--whitespace=nowarn", os.path.abspath(a.patch)])
        if r.returncode != 0:
            print("patch does not apply:\n" + r.stderr)
            out["tests"] = "patch-failed"
            return 2
        if not a.skip_tests:
            t0 = time.time()
            r = sh(["cmake", "-S", wt, "-B", wt + "/_build", "-G", "Ninja", "-DBUILD_TESTS=ON"])
            r2 = sh(["cmake", "--build", wt + "/_build"])
            if r.returncode != 0 or r2.returncode != 0:
                print("mutant does not compile with the repository's tests:\n" + (r2.stdout + r2.stderr)[-3000:])
                out["tests"] = "build-failed"
                return 3
            r3 = sh(["ctest", "--test-dir", wt + "/_build", "-j8", "--timeout", "900"])
            ok = r3.returncode == 0
            out["tests"] = "pass" if ok else "FAIL"
            print("[tests] %s (%.0fs)" % (out["tests"], time.time() - t0))
            if not ok:
                print(r3.stdout[-2000:])
                return 3
            shutil.rmtree(wt + "/_build", ignore_errors=True)
        env = os.environ.copy()
        env["VERIF_REPO"] = wt
        env["VERIF_SEED"] = a.seed
        env["VERIF_EVIDENCE_DIR"] = wt + "/_verif_evidence"  # removed with the worktree: the committed evidence stays that of /repo
        for p in props:
            t0 = time.time()
            r = sh([sys.executable, os.path.join(VERIF, "check.py"), p, "--tier", a.tier], env=env, cwd=VERIF)
            viol = [l for l in r.stdout.splitlines() if l.startswith("VIOLATION")]
            status = "VIOLATION" if r.returncode == 1 and viol else ("ok" if r.returncode == 0 else "broken(rc=%s)" % r.returncode)
            first = ""
            for l in r.stderr.splitlines():
                if l.startswith("property ") or "violation of" in l:
                    first = l[:200]
                    if l.startswith("property "):
                        break
            out["checks"][p] = dict(status=status, wall=round(time.time() - t0, 1), first=first)
            print("[%s] %s %.0fs %s" % (p, status, time.time() - t0, first))
    finally:
        if not a.keep:
            sh(["git", "-C", "/repo", "worktree", "remove", "--force", wt])
            shutil.rmtree(wt, ignore_errors=True)
            sh(["git", "-C", "/repo", "worktree", "prune"])
        if a.json:
            json.dump(out, open(a.json, "w"), indent=1)
    caught = [p for p, v in out["checks"].items() if v["status"] == "VIOLATION"]
    print("caught by: %s" % (",".join(caught) or "NONE"))
    return 0


if __name__ == "__main__":
    sys.exit(main())

#!/usr/bin/env python3
"""Writes seeded/<id>/meta.json from the result files of tools/mutant_run.py (--json /tmp/res_<id>.json)."""
import glob, json, os, sys
root = os.path.dirname(os.path.dirname(os.path.abspath(__file__)))
for d in sorted(glob.glob(os.path.join(root, "seeded", "*"))):
    sid = os.path.basename(d)
    res = "/tmp/res_%s.json" % sid
    meta_p = os.path.join(d, "meta.json")
    if not os.path.exists(res):
        continue
    r = json.load(open(res))
    notes = open(os.path.join(d, "notes.txt")).read().strip() if os.path.exists(os.path.join(d, "notes.txt")) else ""
    caught = [p for p, v in r["checks"].items() if v["status"] == "VIOLATION"]
    meta = dict(
        id=sid, property=sid.split("-")[0], origin="independent sub-agent given only the property text and a scratch worktree of /repo",
        breaks_and_needs=notes,
        confirmed=dict(existing_test_suite_with_patch=r.get("tests"), demonstration="demo.cpp fails with the patch and passes without it (run by the sub-agent; patch re-applied and suite re-run by tools/mutant_run.py in a fresh worktree)"),
        ran="tools/mutant_run.py seeded/%s/patch.diff --props %s (quick tier, VERIF_SEED=1, VERIF_REPO=<scratch worktree>)" % (sid, ",".join(r["checks"])),
        checks={p: dict(status=v["status"], wall_s=v["wall"], first_report=v["first"]) for p, v in r["checks"].items()},
        caught_by=caught,
    )
    if os.path.exists(meta_p):
        try:
            old = json.load(open(meta_p))
            if "demo" in old:
                meta["demo"] = old["demo"]
            # a re-run with --skip-tests keeps the recorded outcome of the repository's suite
            if r.get("tests") is None and old.get("confirmed", {}).get("existing_test_suite_with_patch"):
                meta["confirmed"]["existing_test_suite_with_patch"] = old["confirmed"]["existing_test_suite_with_patch"]
        except Exception:
            pass
    json.dump(meta, open(meta_p, "w"), indent=1)
    print(sid, r.get("tests"), "caught by", caught)
